#!/venv/bin/python
"""Write /verif/SEEDS.md from seeded/*/meta.json and result.json."""
import json
import os

VERIF = os.path.dirname(os.path.dirname(os.path.abspath(__file__)))
rows = []
for sid in sorted(os.listdir(os.path.join(VERIF, "seeded"))):
    d = os.path.join(VERIF, "seeded", sid)
    meta = json.load(open(os.path.join(d, "meta.json")))
    rp = os.path.join(d, "result.json")
    res = json.load(open(rp)) if os.path.exists(rp) else {}
    title = (meta.get("title") or meta.get("mechanism", ""))[:110].replace("|", "/")
    needs = str(meta.get("needs_to_manifest", ""))[:160].replace("|", "/").replace("\n", " ")
    checks = res.get("checks", {})
    caught = ", ".join(sorted(c for c, v in checks.items() if v["rc"] == 1)) or "—"
    missed = ", ".join(sorted(c for c, v in checks.items() if v["rc"] == 0)) or ""
    rows.append((sid, meta.get("property", "?"), title, needs, caught, missed,
                 "yes" if res.get("demo_patched_rc") else "?",
                 "ok" if "487 passed" in res.get("tests", "") else "?",
                 "ported" if meta.get("ported") else ""))
with open(os.path.join(VERIF, "SEEDS.md"), "w") as f:
    f.write("# Seeded property-breaking changes\n\n"
            "Each change was written by an independent sub-agent from the property text alone, keeps "
            "the repository's 487 tests green, and has a demonstration (`demo.py <repo>`) that fails "
            "with the change and passes without it. `tools/seed.py run <id> <checks>` applies the "
            "patch to /repo, runs the demonstration, the test suite and the named checks (quick "
            "tier unless noted), and reverts. 'caught by' = check exits 1 with a VIOLATION line; "
            "'run, silent' = check was run against the change and stayed silent (not its property, "
            "or — before strengthening — a miss that led to the changes described in DESIGN.md).\n\n")
    f.write("| seed | property | change | needs to manifest | caught by | run, silent | demo fails | tests green | note |\n")
    f.write("|---|---|---|---|---|---|---|---|---|\n")
    for r in rows:
        f.write("| " + " | ".join(r) + " |\n")
print(f"{len(rows)} seeds")
