#!/usr/bin/env python3
"""Regenerate /verif/MANIFEST.json from the table below (keeps it schema-valid)."""
from __future__ import annotations

import json
import os

HERE = os.path.dirname(os.path.dirname(os.path.abspath(__file__)))

BFS = "explicit-state BFS over real objects"
SEQ = "bounded-exhaustive enumeration of executions of the real code"

def C(level, technique, text, note, ref):
    return dict(level=level, technique=technique, text=text, note=note, ref=ref)


ORACLE = ("Trusted: the independent wire codec and spec-level reference decoder (mc/jwire, "
          "mc/jspec; cross-checked against rdf_pb2 at setup and against pyjelly on every run); "
          "values outside the small colliding alphabets are assumed to behave alike.")

CHECKS = {
    "C01": C("model_checking",
             "bounded-exhaustive enumeration of statement sequences x configurations on the real "
             "API + explicit-state BFS over the joint real Stream/Decoder state",
             "Every statement sequence up to length 3 (thorough 4-5) over six colliding 6-statement "
             "scopes x 3 stream classes x presets x frame sizes x framings x all generic write and "
             "read entry points is round-tripped through the real code (count asserted against the "
             "closed form); a BFS over deep-copied real Stream+Decoder objects reaches eviction / "
             "elision states only long histories reach.", ORACLE, "6 C01"),
    "C02": C("exploration",
             "bounded-exhaustive enumeration of insertion sequences x configurations through the "
             "rdflib integration",
             "Every insertion sequence up to length 3 (thorough 4) over five RDF 1.1 scopes x "
             "Graph/Dataset with Triple/Quad/GraphStream x presets x frame sizes x flat/grouped x "
             "delimited/non-delimited x all rdflib write and read entry points; sets compared term "
             "by term.", ORACLE + " rdflib's own set order/dedup is not judged.", "6 C02"),
    "C03": C("exploration",
             "bounded-exhaustive enumeration; every emitted byte string decoded by an independent "
             "reference decoder",
             "All byte strings of the C01 and C02 spaces are decoded by jwire+jspec alone in strict "
             "mode and compared with the input, which makes symmetric writer/reader mistakes "
             "visible.", ORACLE, "6 C03"),
    "C04": C("model_checking",
             "stateless deviation-bounded exploration of the choice points of a reference producer "
             "(all executions with <= 1, thorough <= 2 deviations), traces replayed against the "
             "real parsers",
             "A spec-level reference encoder exposes every producer freedom as a choice point; the "
             "default execution and every execution with 1 (2) deviations is generated for every "
             "sequence/physical type/sizing, validated by the reference decoder and parsed by all "
             "six pyjelly entry points.", ORACLE + " Producer freedoms outside the modelled kinds "
             "(listed in the evidence) are not covered.", "6 C04"),
    "C05": C("model_checking",
             "explicit-state model checking: BFS to fixpoint over the real "
             "LookupEncoder/LookupDecoder (symmetry-reduced) and TermEncoder/Decoder",
             "Every reachable joint writer/reader table state (per index rule, sizes 1..6 quick / "
             "1..8 thorough, n+2 keys, modulo key renaming) is visited and the mirror/bounds "
             "oracle is evaluated on every transition of the real code; the search closes, so the "
             "verdict covers histories of any length over those sizes.",
             "Trusted: the symmetry argument (validated against the unreduced search for small n); "
             "sizes above the bound are assumed to behave alike (size-generic code).", "6 C05"),
    "C06": C("exploration", "exhaustive enumeration of the finite configuration lattice",
             "All points of stream class x 8 logical types x delimited x frame size x 7 flows x "
             "entry points x inputs are executed; each is classified raised / complete / "
             "violation by the reference decoder and a read-back.", ORACLE +
             " Quad input written through a TRIPLES stream (logical GRAPHS) is judged on its "
             "triples only.", "6 C06"),
    "C07": C("exploration",
             "exhaustive enumeration of all 2^(n-1) frame partitions of each base stream and of "
             "all short graph/dataset sequences",
             "Every re-partition of the row sequence (plain, with empty frames, with metadata) of "
             "each base stream is parsed flat and grouped by both integrations; every sequence of "
             "<= 3 graphs/datasets is written through the grouped entry point.", ORACLE, "6 C07"),
    "C08": C("exploration", "exhaustive enumeration of all 2^24 three-byte headers + real streams",
             "All 16,777,216 headers are classified by a ground-truth grammar of the wire format "
             "and compared with delimited_jelly_hint; real streams for every stream-name length "
             "and option combination are written in both modes, re-cut, and parsed.",
             "Trusted: the grammar in mc/checks/c08.py (disjointness asserted on every run).",
             "6 C08"),
    "C09": C("fault_enumeration",
             "deviation-bounded exploration of the read-size answers of a fault-injecting source",
             "All uniform schedules, the cube of the first three read sizes, and every schedule "
             "with <= 1 (thorough 2) short reads of a non-seekable raw source (also wrapped in "
             "BufferedReader), plus file/gzip/BytesIO, for every base stream and parser.",
             ORACLE + " Sources are io-contract doubles, not kernel sockets.", "6 C09"),
    "C10": C("fault_enumeration", "exhaustive enumeration of every truncation point",
             "Every byte offset of every base stream x seekable/non-seekable x flat/grouped x both "
             "integrations; yielded items must be a prefix containing all fully delivered frames.",
             ORACLE, "6 C10"),
    "C11": C("model_checking",
             "exhaustive exploration of the producer/serializer/consumer pipeline states and of "
             "all stall points of the byte source",
             "The product of an instrumented input generator, the real serializer generator and a "
             "consumer is observed at every pull and yield for every sequence x frame size x entry "
             "point; every (stream, frame boundary) stall point is executed for raw, buffered and "
             "seekable sources.", ORACLE, "6 C11"),
    "C12": C("model_checking",
             "exhaustive interleaving enumeration + preemption-bounded stateless exploration of "
             "real threads under a controlled scheduler",
             "All merges of the step sequences of workload pairs (thorough: triples); two real "
             "threads scheduled at line granularity inside pyjelly under every schedule with <= 1 "
             "(thorough 2) preemptions, failing schedules replayed twice; all histories of prior "
             "activity up to depth 2 (3); fresh processes under a list of hash seeds.",
             "Trusted: C code is atomic under the GIL; hash seeds are a finite list.", "6 C12"),
    "C13": C("exploration", "exhaustive enumeration of the header / type-pair / strictness lattices",
             "Header lattice written by the real Stream API and compared writer-wire-reader field "
             "by field; all 4x8 type pairs on construction and on hand-built streams; the strict "
             "acceptance table; table-size and version limits, on all six parsers.", ORACLE,
             "6 C13"),
    "C14": C("exploration", "bounded-exhaustive enumeration of binding lists x statement sequences",
             "All ordered binding lists up to length 2 (3) x statement sequences x both "
             "integrations x three physical types x prefix tables x declarations on/off; wire, "
             "reader events, sinks/graphs and re-serialisation compared.",
             ORACLE + " rdflib's own default bindings are compared relative to the source graph.",
             "6 C14"),
    "C15": C("exploration", "bounded-exhaustive differential enumeration",
             "Every RDF 1.1 sequence x configuration is serialised by both integrations "
             "(byte-identical?) and every byte string (also reference-encoder streams) goes through "
             "all six parsers, which must agree within and across integrations.",
             "Differential oracle: no reference needed beyond input correspondence.", "6 C15"),
    "C16": C("fault_enumeration", "exhaustive enumeration of (row position x violation class) mutants",
             "Every catalogued spec violation is injected at every applicable row of every base "
             "stream; a mutant counts only if the reference decoder rejects it; all parsers must "
             "raise having yielded only the decoding of the valid prefix.", ORACLE, "6 C16"),
    "C17": C("fault_enumeration",
             "bounded-exhaustive enumeration of byte-string neighbourhoods with watchdogs",
             "All byte strings up to length 2, all strings up to length 4 (5) over a structural "
             "alphabet, all one-point (and some two-point) mutations of seed streams, and a hostile "
             "catalogue, through every entry point from seekable and non-seekable sources, under a "
             "per-case timer, RSS and worker-liveness watchdog.",
             "'Any byte string' is decided for these neighbourhoods only; memory = peak RSS.",
             "6 C17"),
    "C18": C("exploration", "exhaustive enumeration of overflowing statements x presets x histories",
             "All 512 statements over 5 IRIs + 3 typed literals and nested quoted triples with "
             "9..27 names x every preset where a table overflows x histories x stream classes; "
             "either refused or decoded (reference decoder) to exactly the input.", ORACLE, "6 C18"),
    "C19": C("exploration", "bounded-exhaustive enumeration with a row-by-row audit",
             "Every stream of the C01 and C02 spaces is audited with the reference decoder's trail: "
             "no entry for a resident string, equal terms elided, zero forms used, one graph start "
             "per run, size <= naive.", ORACLE + " Only the 'compact' direction is demanded.",
             "6 C19"),
    "C20": C("fault_enumeration",
             "exhaustive enumeration of (sequence x position x slot x cause) rejection points",
             "A catch-and-continue caller drives every sequence up to length 3 (4) with one "
             "statement made unencodable at every position/slot/cause, on three stream classes and "
             "both integrations; output must decode to the accepted statements or the stream must "
             "refuse further use.", ORACLE, "6 C20"),
}

NOT_YET: dict[str, str] = {}


def main() -> None:
    props = [json.loads(l) for l in open(os.path.join(HERE, "properties.jsonl"))]
    ids = [p["id"] for p in props]
    checks = []
    for pid in ids:
        if pid not in CHECKS:
            continue
        c = CHECKS[pid]
        checks.append(
            {
                "property_id": pid,
                "quick_cmd": f"./check {pid} quick",
                "thorough_cmd": f"./check {pid} thorough",
                "evidence_file": f"/verif/evidence/{pid}.json",
                "replay_cmd_template": "./check --replay {path}",
                "engine": "mc",
                "level_claimed": {
                    "category": c["level"],
                    "text": c["text"],
                    "design_ref": f"DESIGN.md section {c['ref']}",
                },
                "level_note": c["note"],
                "technique": c["technique"],
            }
        )
    na = [
        {"property_id": pid, "reason": NOT_YET.get(pid, "check not built yet (work in progress)")}
        for pid in ids
        if pid not in CHECKS
    ]
    man = {
        "version": 1,
        "setup_cmd": "./setup.sh",
        "hooks": {
            "guard": "PYJELLY_VERIF",
            "enable": "checks import /repo's working tree directly (pure Python, no build); "
            "PYJELLY_VERIF=1 is exported by ./check but no source hook is needed",
            "baseline_off_cmd": "cd /repo && /venv/bin/python -m pytest -ra -q -p no:cacheprovider "
            "--timeout=900 --continue-on-collection-errors",
            "source_commits": [],
            "add_only": True,
        },
        "engines": [
            {
                "name": "mc",
                "path": "/verif/mc",
                "serves_properties": [c["property_id"] for c in checks],
                "kind_free_text": "hand-written explicit-state / bounded-exhaustive explorer for "
                "Python: BFS over deep-copied real objects, exhaustive sequence and product "
                "spaces, deviation-bounded choice exploration, fault-injecting I/O doubles, "
                "controlled thread scheduler; oracles are an independent wire codec and "
                "spec-level reference decoder/encoder",
            }
        ],
        "checks": checks,
        "not_applicable": na,
        "notes": "All checks run the real code in /repo's working tree (sys.path pinned, asserted). "
        "known_findings.json lists recorded genuine defects; DESIGN.md explains each check.",
    }
    with open(os.path.join(HERE, "MANIFEST.json"), "w") as f:
        json.dump(man, f, indent=1)
        f.write("\n")


if __name__ == "__main__":
    main()
