#!/usr/bin/env python3
"""Regenerate /verif/MANIFEST.json from the table below (keeps it schema-valid)."""
from __future__ import annotations

import json
import os

HERE = os.path.dirname(os.path.dirname(os.path.abspath(__file__)))

BFS = "explicit-state BFS over real objects"
SEQ = "bounded-exhaustive enumeration of executions of the real code"

CHECKS = {
    "C05": dict(
        level="model_checking",
        technique="explicit-state model checking: BFS to fixpoint over the real "
        "LookupEncoder/LookupDecoder (symmetry-reduced) and TermEncoder/Decoder",
        text="Every reachable joint writer/reader table state (per index rule, sizes 1..6 quick / "
        "1..8 thorough, n+2 keys, modulo key renaming) is visited and the mirror/bounds "
        "oracle is evaluated on every transition of the real code; the search closes, so the "
        "verdict covers histories of any length over those sizes.",
        note="Trusted: the symmetry argument (validated against the unreduced search for small n); "
        "sizes above the bound are assumed to behave alike (size-generic code).",
        ref="6 C05",
    ),
}

NOT_YET: dict[str, str] = {}


def main() -> None:
    props = [json.loads(l) for l in open(os.path.join(HERE, "properties.jsonl"))]
    ids = [p["id"] for p in props]
    checks = []
    for pid in ids:
        if pid not in CHECKS:
            continue
        c = CHECKS[pid]
        checks.append(
            {
                "property_id": pid,
                "quick_cmd": f"./check {pid} quick",
                "thorough_cmd": f"./check {pid} thorough",
                "evidence_file": f"/verif/evidence/{pid}.json",
                "replay_cmd_template": "./check --replay {path}",
                "engine": "mc",
                "level_claimed": {
                    "category": c["level"],
                    "text": c["text"],
                    "design_ref": f"DESIGN.md section {c['ref']}",
                },
                "level_note": c["note"],
                "technique": c["technique"],
            }
        )
    na = [
        {"property_id": pid, "reason": NOT_YET.get(pid, "check not built yet (work in progress)")}
        for pid in ids
        if pid not in CHECKS
    ]
    man = {
        "version": 1,
        "setup_cmd": "./setup.sh",
        "hooks": {
            "guard": "PYJELLY_VERIF",
            "enable": "checks import /repo's working tree directly (pure Python, no build); "
            "PYJELLY_VERIF=1 is exported by ./check but no source hook is needed",
            "baseline_off_cmd": "cd /repo && /venv/bin/python -m pytest -ra -q -p no:cacheprovider "
            "--timeout=900 --continue-on-collection-errors",
            "source_commits": [],
            "add_only": True,
        },
        "engines": [
            {
                "name": "mc",
                "path": "/verif/mc",
                "serves_properties": [c["property_id"] for c in checks],
                "kind_free_text": "hand-written explicit-state / bounded-exhaustive explorer for "
                "Python: BFS over deep-copied real objects, exhaustive sequence and product "
                "spaces, deviation-bounded choice exploration, fault-injecting I/O doubles, "
                "controlled thread scheduler; oracles are an independent wire codec and "
                "spec-level reference decoder/encoder",
            }
        ],
        "checks": checks,
        "not_applicable": na,
        "notes": "All checks run the real code in /repo's working tree (sys.path pinned, asserted). "
        "known_findings.json lists recorded genuine defects; DESIGN.md explains each check.",
    }
    with open(os.path.join(HERE, "MANIFEST.json"), "w") as f:
        json.dump(man, f, indent=1)
        f.write("\n")


if __name__ == "__main__":
    main()
