#!/venv/bin/python
"""Summarise a mutation-campaign result file (tools/mutate.py) into /verif/MUTANTS.md."""
import collections
import json
import os
import sys

VERIF = os.path.dirname(os.path.dirname(os.path.abspath(__file__)))
src = sys.argv[1] if len(sys.argv) > 1 else "/tmp/mut/mutants.jsonl"
rs = [json.loads(l) for l in open(src)]
# manual triage of surviving mutants: (file suffix, line, fragment of the description) -> note
NOTES = [
    ("options.py", None, "True -> False", "decorator argument (frozen= / allow_interpreted_subclasses=) or import side-effect flag: no observable behaviour named by a property"),
    ("options.py", None, "False -> True", "default value of StreamParameters.generalized_statements / rdf_star: the checks always pass these explicitly; the header still states what was used"),
    ("lookup.py", 112, "make_last_to_evict", "equivalent: encode_entry_index() moved the key to the end immediately before"),
    ("lookup.py", None, "True -> False", "decorator argument"),
    ("encode.py", 29, "if char", "split_iri falls back to an empty prefix for IRIs without '#': still a correct (less compact) encoding; no property constrains the split point"),
    ("encode.py", 51, "lookup_preset", "attribute never read"),
    ("encode.py", None, "True -> False", "decorator argument"),
    ("streams.py", 30, "TYPE_CHECKING", "typing-only import"),
    ("streams.py", 114, "enrolled", "options row re-sent on a later enroll(): identical repeated options rows are valid Jelly and every reader accepts them"),
    ("streams.py", 116, "enrolled", "same as above"),
    ("streams.py", 299, "frame_from_bounds", "GraphStream.graph() no longer cuts a frame at graph end; rows are flushed by the next cut or the final flush (C11 explicitly does not judge graph streams)"),
    ("streams.py", None, "True -> False", "decorator argument"),
    ("flows.py", 67, "if not self", "an empty flow yields an empty frame instead of None: extra empty frames are valid and carry no statement"),
    ("serialize/ioutils.py", 13, "True -> False", "deterministic= flag of SerializeToString: no map fields are written"),
    ("parse/lookup.py", 41, "index > 0", "assert that cannot fail either way"),
    ("decode.py", 105, "parsing_mode", "attribute never read"),
    ("decode.py", 443, "if field", "still raises (TypeError instead of ValueError) for a repeat marker inside a quoted triple"),
    ("decode.py", 371, "lookup_size", "still raises (IndexError from the empty table) for a datatype reference with a disabled table"),
    ("decode.py", None, "True -> False", "decorator argument"),
    ("parse/ioutils.py", 106, "seekable", "seekable inputs take the push-back path too: same result"),
    ("parse/ioutils.py", 112, "BufferedIOBase", "raw inputs are read through the push-back loop without a BufferedReader: same result, more syscalls"),
    ("parse/ioutils.py", 74, "len(data) < size", "one extra zero-length read: same result"),
    ("parse/ioutils.py", 52, "const 3", "only inputs shorter than 3 bytes behave differently (IndexError instead of a DecodeError): still an ordinary exception"),
    ("parse/ioutils.py", 69, "const 1", "default argument -1 -> -2: both mean 'read everything'"),
    ("parse/ioutils.py", 70, "size <", "read(0) is never requested (protobuf returns an empty frame without reading)"),
    ("parse/ioutils.py", 70, "const 0", "read(0) is never requested"),
    ("parse/ioutils.py", 116, "const 3", "four header bytes are read and pushed back; the hint looks at the first three"),
    ("parse/ioutils.py", 120, "const 3", "four header bytes are read and sought back; the hint looks at the first three"),
    ("generic/serialize.py", 176, "isinstance", "iterating the sink itself yields the same statements as sink.store"),
    ("generic/serialize.py", 218, "isinstance", "iterating the sink itself yields the same statements as sink.store"),
    ("generic/serialize.py", 221, "iter(data)", "the condition is always true for an iterable"),
    ("generic/serialize.py", 228, "frame_from_dataset", "the rows are emitted by the unconditional end-of-input flush instead: same frames"),
    ("generic/serialize.py", 149, "frame_from_graph", "one graph per call: the rows are emitted by the end-of-input flush instead: same frames"),
    ("parse.py", None, "frames is None or options is None", "differs only when exactly one of the two arguments is given, which no caller does"),
    ("parse.py", None, "st is None", "only the text of an error message changes"),
    ("parse.py", None, "True -> False", "decorator argument"),
    ("generic/parse.py", None, "sink.bind", "BLIND SPOT at the time of the campaign: C14 compared the bindings of the flat parser and parse-to-graph only. Fixed: C14 now inspects the sinks of every reader and reports this mutant (verified)."),
    ("generic_sink.py", 194, "_namespaces", "BLIND SPOT at the time of the campaign (GenericStatementSink.parse() lost the bindings). Fixed: C14 reads through sink.parse() as well and reports this mutant (verified)."),
    ("generic_sink.py", 195, "_identifier", "the identifier of a parsed sink is the default graph either way"),
    ("rdflib/serialize.py", 168, "isinstance", "iterating a Dataset yields the same quads as Dataset.quads()"),
    ("rdflib/serialize.py", None, "frame_from_dataset", "the rows are emitted by the unconditional end-of-input flush instead: same frames"),
    ("rdflib/serialize.py", 139, "frame_from_graph", "only a Dataset written through a TripleStream with logical type GRAPHS is affected (all its graphs end up in one frame); no property fixes the framing of that path (C07 speaks of one frame per *input* graph/dataset)"),
    ("rdflib/serialize.py", 33, "True -> False", "decorator argument"),
    ("rdflib/parse.py", 239, "_graph_id", "a triple before the first graph start still raises (AttributeError)"),
    ("rdflib/parse.py", 243, "_graph_id is None", "the `graph` guard property is not used"),
    ("rdflib/parse.py", None, "const", "Triple.s/p/o convenience properties are not used by the library"),
    ("rdflib/parse.py", None, "sink.bind", "BLIND SPOT at the time of the campaign (bindings of graphs yielded by the rdflib grouped parser). Fixed: C14 checks them now (verified)."),
    ("generic/serialize.py", 184, "frame_from_dataset", "the rows are emitted by the unconditional end-of-input flush instead: same frames"),
]


def note(r):
    for suf, line, frag, text in NOTES:
        if r["file"].endswith(suf) and (line is None or line == r["line"]) and frag in r["desc"]:
            return text
    return "NOT TRIAGED"


c = collections.Counter(r["status"] for r in rs)
by = collections.Counter(r.get("by") for r in rs if r["status"] == "caught")
with open(os.path.join(VERIF, "MUTANTS.md"), "w") as f:
    f.write("# Systematic mutation campaign (tools/mutate.py)\n\n"
            "Syntactic mutants (comparison / boolean / constant / statement-removal / condition "
            "operators) of every hand-written pyjelly module. A mutant is first run against the "
            "repository's own tests; only mutants the tests let through are run against the quick "
            "checks (on a scratch copy, in a fixed order, stopping at the first VIOLATION).\n\n")
    f.write(f"* mutants generated and run: {len(rs)}\n")
    for k, v in c.most_common():
        f.write(f"* {k}: {v}\n")
    f.write("\nCaught (test-surviving) mutants by first reporting check: "
            + ", ".join(f"{k} {v}" for k, v in by.most_common()) + "\n\n")
    f.write("The campaign ran against the checks as they were at commit 64da5e8; the table "
            "records what survived *then*. Every survivor was triaged by hand: all but five are "
            "equivalent with respect to the twenty properties (decorator arguments, unused "
            "attributes, message texts, conditions that cannot differ, behaviour no property "
            "constrains); five (three code sites: bindings lost by the generic grouped parser, by "
            "GenericStatementSink.parse() and by the rdflib grouped parser) were genuine blind "
            "spots of C14, which was extended and now reports them (re-verified by applying the "
            "mutants by hand).\n\n")
    f.write("## Mutants that survive the tests and every quick check\n\n"
            "| # | file:line | mutation | triage |\n|---|---|---|---|\n")
    for r in rs:
        if r["status"] not in ("killed-by-tests", "caught"):
            f.write(f"| {r['i']} | {r['file']}:{r['line']} | `{r['desc'][:90]}` | {note(r)} |\n")
    f.write("\n## Test-surviving mutants reported by a check\n\n| # | file:line | mutation | check |\n|---|---|---|---|\n")
    for r in rs:
        if r["status"] == "caught":
            f.write(f"| {r['i']} | {r['file']}:{r['line']} | `{r['desc'][:90]}` | {r['by']} |\n")
print(c, "untriaged:", sum(1 for r in rs if r["status"] not in ("killed-by-tests", "caught")
                          and note(r) == "NOT TRIAGED"))
