#!/venv/bin/python
"""Summarise a mutation-campaign result file (tools/mutate.py) into /verif/MUTANTS.md."""
import collections
import json
import os
import sys

VERIF = os.path.dirname(os.path.dirname(os.path.abspath(__file__)))
src = sys.argv[1] if len(sys.argv) > 1 else "/tmp/mut/mutants.jsonl"
rs = [json.loads(l) for l in open(src)]
# manual triage of surviving mutants: (file suffix, line, fragment of the description) -> note
NOTES = [
    ("options.py", None, "True -> False", "decorator argument (frozen= / allow_interpreted_subclasses=) or import side-effect flag: no observable behaviour named by a property"),
    ("options.py", None, "False -> True", "default value of StreamParameters.generalized_statements / rdf_star: the checks always pass these explicitly; the header still states what was used"),
    ("lookup.py", 112, "make_last_to_evict", "equivalent: encode_entry_index() moved the key to the end immediately before"),
    ("lookup.py", None, "True -> False", "decorator argument"),
    ("encode.py", 29, "if char", "split_iri falls back to an empty prefix for IRIs without '#': still a correct (less compact) encoding; no property constrains the split point"),
    ("encode.py", 51, "lookup_preset", "attribute never read"),
    ("encode.py", None, "True -> False", "decorator argument"),
    ("streams.py", 30, "TYPE_CHECKING", "typing-only import"),
    ("streams.py", 114, "enrolled", "options row re-sent on a later enroll(): identical repeated options rows are valid Jelly and every reader accepts them"),
    ("streams.py", 116, "enrolled", "same as above"),
    ("streams.py", 299, "frame_from_bounds", "GraphStream.graph() no longer cuts a frame at graph end; rows are flushed by the next cut or the final flush (C11 explicitly does not judge graph streams)"),
    ("streams.py", None, "True -> False", "decorator argument"),
    ("flows.py", 67, "if not self", "an empty flow yields an empty frame instead of None: extra empty frames are valid and carry no statement"),
    ("serialize/ioutils.py", 13, "True -> False", "deterministic= flag of SerializeToString: no map fields are written"),
    ("parse/lookup.py", 41, "index > 0", "assert that cannot fail either way"),
    ("decode.py", 105, "parsing_mode", "attribute never read"),
    ("decode.py", 443, "if field", "still raises (TypeError instead of ValueError) for a repeat marker inside a quoted triple"),
    ("decode.py", 371, "lookup_size", "still raises (IndexError from the empty table) for a datatype reference with a disabled table"),
    ("decode.py", None, "True -> False", "decorator argument"),
    ("parse/ioutils.py", 106, "seekable", "seekable inputs take the push-back path too: same result"),
    ("parse/ioutils.py", 112, "BufferedIOBase", "raw inputs are read through the push-back loop without a BufferedReader: same result, more syscalls"),
    ("parse/ioutils.py", 74, "len(data) < size", "one extra zero-length read: same result"),
    ("parse/ioutils.py", 52, "const 3", "only inputs shorter than 3 bytes behave differently (IndexError instead of a DecodeError): still an ordinary exception"),
    ("parse/ioutils.py", 69, "const 1", "default argument -1 -> -2: both mean 'read everything'"),
    ("parse/ioutils.py", 70, "size <", "read(0) is never requested (protobuf returns an empty frame without reading)"),
    ("parse/ioutils.py", 70, "const 0", "read(0) is never requested"),
    ("parse/ioutils.py", 116, "const 3", "four header bytes are read and pushed back; the hint looks at the first three"),
    ("parse/ioutils.py", 120, "const 3", "four header bytes are read and sought back; the hint looks at the first three"),
    ("generic/serialize.py", 176, "isinstance", "iterating the sink itself yields the same statements as sink.store"),
    ("generic/serialize.py", 184, "frame_from_dataset", "the rows are emitted by the unconditional end-of-input flush instead: same frames"),
]


def note(r):
    for suf, line, frag, text in NOTES:
        if r["file"].endswith(suf) and (line is None or line == r["line"]) and frag in r["desc"]:
            return text
    return "NOT TRIAGED"


c = collections.Counter(r["status"] for r in rs)
by = collections.Counter(r.get("by") for r in rs if r["status"] == "caught")
with open(os.path.join(VERIF, "MUTANTS.md"), "w") as f:
    f.write("# Systematic mutation campaign (tools/mutate.py)\n\n"
            "Syntactic mutants (comparison / boolean / constant / statement-removal / condition "
            "operators) of every hand-written pyjelly module. A mutant is first run against the "
            "repository's own tests; only mutants the tests let through are run against the quick "
            "checks (on a scratch copy, in a fixed order, stopping at the first VIOLATION).\n\n")
    f.write(f"* mutants generated and run: {len(rs)}\n")
    for k, v in c.most_common():
        f.write(f"* {k}: {v}\n")
    f.write("\nCaught (test-surviving) mutants by first reporting check: "
            + ", ".join(f"{k} {v}" for k, v in by.most_common()) + "\n\n")
    f.write("## Mutants that survive the tests and every quick check\n\n"
            "| # | file:line | mutation | triage |\n|---|---|---|---|\n")
    for r in rs:
        if r["status"] not in ("killed-by-tests", "caught"):
            f.write(f"| {r['i']} | {r['file']}:{r['line']} | `{r['desc'][:90]}` | {note(r)} |\n")
    f.write("\n## Test-surviving mutants reported by a check\n\n| # | file:line | mutation | check |\n|---|---|---|---|\n")
    for r in rs:
        if r["status"] == "caught":
            f.write(f"| {r['i']} | {r['file']}:{r['line']} | `{r['desc'][:90]}` | {r['by']} |\n")
print(c, "untriaged:", sum(1 for r in rs if r["status"] not in ("killed-by-tests", "caught")
                          and note(r) == "NOT TRIAGED"))
