#!/venv/bin/python
"""Run several seeded changes against the check of their own property (or the checks named
after a colon) and print which were missed:  seedbatch.py C01-M C02-N:C02,C12 ..."""
import json
import subprocess
import sys

miss, err, ok = [], [], []
for arg in sys.argv[1:]:
    sid, _, checks = arg.partition(":")
    cs = checks.split(",") if checks else [sid.split("-")[0]]
    r = subprocess.run(["/venv/bin/python", "/verif/tools/seed.py", "run", sid, *cs],
                       capture_output=True, text=True)
    try:
        res = json.load(open(f"/verif/seeded/{sid}/result.json"))
    except Exception:  # noqa: BLE001
        err.append((sid, r.stdout[-200:] + r.stderr[-200:]))
        continue
    if res.get("harness_errors") or str(res.get("apply", "")).startswith("FAILED"):
        err.append((sid, res.get("harness_errors") or res.get("apply")))
    elif res.get("demo_patched_rc") == 0:
        err.append((sid, "demo does not fail with the patch"))
    elif set(res.get("caught_by", [])) & set(cs):
        ok.append(sid)
    else:
        miss.append(sid)
    print(sid, "->", res.get("caught_by"), flush=True)
print("caught:", len(ok), "missed:", miss, "errors:", err)
