#!/venv/bin/python
"""Systematic mutation campaign against the checks (a map of blind spots).

For every small syntactic mutant of /repo/pyjelly (comparison / boolean /
constant / statement-removal operators) that still passes the repository's own
test suite, run the quick checks (in a fixed order, stopping at the first that
reports a VIOLATION) against a scratch copy of the repository.  Nothing is
written to /repo.  Results: one JSON line per mutant in the output file.

  mutate.py list                       print the mutants
  mutate.py run <out.jsonl> [--jobs N] [--only FILE] [--start I] [--stop J]
"""
from __future__ import annotations

import ast
import json
import os
import shutil
import subprocess
import sys
import tempfile
import time
from concurrent.futures import ThreadPoolExecutor

VERIF = os.path.dirname(os.path.dirname(os.path.abspath(__file__)))
REPO = os.environ.get("MUT_REPO", "/repo")
PY = "/venv/bin/python"
FILES = [
    "pyjelly/options.py", "pyjelly/serialize/lookup.py", "pyjelly/serialize/encode.py",
    "pyjelly/serialize/streams.py", "pyjelly/serialize/flows.py", "pyjelly/serialize/ioutils.py",
    "pyjelly/parse/lookup.py", "pyjelly/parse/decode.py", "pyjelly/parse/ioutils.py",
    "pyjelly/integrations/generic/serialize.py", "pyjelly/integrations/generic/parse.py",
    "pyjelly/integrations/generic/generic_sink.py",
    "pyjelly/integrations/rdflib/serialize.py", "pyjelly/integrations/rdflib/parse.py",
]
CHECK_ORDER = ["C01", "C04", "C03", "C16", "C06", "C13", "C07", "C10", "C02", "C14", "C19",
               "C15", "C20", "C18", "C05", "C09", "C11", "C08", "C12", "C17"]
CMP = {ast.Eq: ast.NotEq, ast.NotEq: ast.Eq, ast.Lt: ast.LtE, ast.LtE: ast.Lt, ast.Gt: ast.GtE,
       ast.GtE: ast.Gt, ast.Is: ast.IsNot, ast.IsNot: ast.Is, ast.In: ast.NotIn, ast.NotIn: ast.In}


def mutants_of(path: str, src: str):
    tree = ast.parse(src)
    lines = src.splitlines(keepends=True)

    def seg(node):
        return ast.get_source_segment(src, node)

    def replace(node, new_text):
        # single-line replacement by columns
        if node.lineno != node.end_lineno:
            return None
        ln = lines[node.lineno - 1]
        b = ln.encode()
        newb = b[: node.col_offset] + new_text.encode() + b[node.end_col_offset:]
        out = list(lines)
        out[node.lineno - 1] = newb.decode()
        return "".join(out)

    in_doc = set()
    for node in ast.walk(tree):
        if isinstance(node, (ast.FunctionDef, ast.ClassDef, ast.Module)):
            b = getattr(node, "body", [])
            if b and isinstance(b[0], ast.Expr) and isinstance(b[0].value, ast.Constant) \
                    and isinstance(b[0].value.value, str):
                in_doc.add(id(b[0]))
    for node in ast.walk(tree):
        if isinstance(node, ast.Compare) and len(node.ops) == 1 and type(node.ops[0]) in CMP:
            new = ast.Compare(node.left, [CMP[type(node.ops[0])]()], node.comparators)
            txt = ast.unparse(new)
            r = replace(node, txt)
            if r:
                yield node.lineno, f"{seg(node)}  ->  {txt}", r
        elif isinstance(node, ast.BoolOp) and len(node.values) == 2:
            op = ast.Or() if isinstance(node.op, ast.And) else ast.And()
            txt = ast.unparse(ast.BoolOp(op, node.values))
            r = replace(node, txt)
            if r:
                yield node.lineno, f"{seg(node)}  ->  {txt}", r
        elif isinstance(node, ast.UnaryOp) and isinstance(node.op, ast.Not):
            txt = ast.unparse(node.operand)
            r = replace(node, f"({txt})")
            if r:
                yield node.lineno, f"{seg(node)}  ->  {txt}", r
        elif isinstance(node, ast.Constant) and type(node.value) is int and node.value in (0, 1, 2, 3, 8):
            for nv in ({0: [1], 1: [0, 2], 2: [1, 3], 3: [2, 4], 8: [7, 9]}[node.value]):
                r = replace(node, str(nv))
                if r:
                    yield node.lineno, f"const {node.value} -> {nv}", r
        elif isinstance(node, ast.Constant) and type(node.value) is bool:
            r = replace(node, str(not node.value))
            if r:
                yield node.lineno, f"{node.value} -> {not node.value}", r
        elif isinstance(node, ast.BinOp) and isinstance(node.op, (ast.Add, ast.Sub)) \
                and isinstance(node.right, ast.Constant) and node.right.value == 1:
            op = ast.Sub() if isinstance(node.op, ast.Add) else ast.Add()
            txt = ast.unparse(ast.BinOp(node.left, op, node.right))
            r = replace(node, txt)
            if r:
                yield node.lineno, f"{seg(node)}  ->  {txt}", r
            r = replace(node, ast.unparse(node.left))
            if r:
                yield node.lineno, f"{seg(node)}  ->  {ast.unparse(node.left)}", r
        elif isinstance(node, ast.Expr) and id(node) not in in_doc and node.lineno == node.end_lineno \
                and isinstance(node.value, ast.Call):
            r = replace(node, "pass")
            if r:
                yield node.lineno, f"remove call `{seg(node)}`", r
        elif isinstance(node, (ast.Assign, ast.AugAssign)) and node.lineno == node.end_lineno \
                and isinstance(getattr(node, "targets", [getattr(node, "target", None)])[0],
                               ast.Attribute):
            r = replace(node, "pass")
            if r:
                yield node.lineno, f"remove `{seg(node)}`", r
        elif isinstance(node, ast.If) and node.test.lineno == node.test.end_lineno \
                and not isinstance(node.test, ast.Compare):
            r = replace(node.test, "True")
            if r:
                yield node.lineno, f"if {seg(node.test)}  ->  if True", r
            r = replace(node.test, "False")
            if r:
                yield node.lineno, f"if {seg(node.test)}  ->  if False", r


def all_mutants(only=None):
    out = []
    for f in FILES:
        if only and only not in f:
            continue
        src = open(os.path.join(REPO, f)).read()
        for lineno, desc, new in mutants_of(f, src):
            try:
                compile(new, f, "exec")
            except SyntaxError:
                continue
            if new != src:
                out.append({"file": f, "line": lineno, "desc": desc, "src": new})
    return out


def run_one(idx: int, m: dict, workers: int) -> dict:
    t0 = time.time()
    tmp = tempfile.mkdtemp(prefix="mut_")
    rec = {"i": idx, "file": m["file"], "line": m["line"], "desc": m["desc"]}
    try:
        copy = os.path.join(tmp, "repo")
        shutil.copytree(REPO, copy, symlinks=True, ignore_dangling_symlinks=True,
                        ignore=shutil.ignore_patterns(".git", "__pycache__", "docs"))
        with open(os.path.join(copy, m["file"]), "w") as f:
            f.write(m["src"])
        r = subprocess.run(
            f"cd {copy} && {PY} -B -m pytest -q -x -p no:cacheprovider --timeout=120 2>&1 | tail -1",
            shell=True, capture_output=True, text=True, timeout=900)
        rec["tests"] = r.stdout.strip()[-80:]
        if "487 passed" not in r.stdout:
            rec["status"] = "killed-by-tests"
            return rec
        env = {**os.environ, "VERIF_REPO": copy, "VERIF_WORKERS": str(workers)}
        rec["status"] = "SURVIVED-ALL-CHECKS"
        rec["ran"] = []
        for c in CHECK_ORDER:
            try:
                r = subprocess.run([os.path.join(VERIF, "check"), c, "quick"], capture_output=True,
                                   text=True, env=env, timeout=1800)
            except subprocess.TimeoutExpired:
                rec["status"] = "caught"
                rec["by"] = c + " (timeout)"
                break
            rec["ran"].append(c)
            if r.returncode == 1:
                rec["status"] = "caught"
                rec["by"] = c
                w = [l.strip() for l in r.stdout.splitlines() if l.strip().startswith("what:")]
                rec["what"] = w[0][:200] if w else ""
                break
            if r.returncode != 0:
                rec["status"] = "harness-error"
                rec["by"] = c
                rec["err"] = (r.stderr or r.stdout)[-300:]
                break
    finally:
        shutil.rmtree(tmp, ignore_errors=True)
        rec["wall"] = round(time.time() - t0, 1)
    return rec


def main() -> None:
    a = sys.argv[1:]
    only = a[a.index("--only") + 1] if "--only" in a else None
    ms = all_mutants(only)
    if a[0] == "list":
        for i, m in enumerate(ms):
            print(i, m["file"], m["line"], m["desc"])
        print(len(ms), "mutants")
        return
    out = a[1]
    jobs = int(a[a.index("--jobs") + 1]) if "--jobs" in a else 4
    start = int(a[a.index("--start") + 1]) if "--start" in a else 0
    stop = int(a[a.index("--stop") + 1]) if "--stop" in a else len(ms)
    workers = max(2, 16 // jobs)
    if "--retest" in a:
        # only the mutants that the repository's tests let through in an earlier campaign
        prev = [json.loads(l) for l in open(a[a.index("--retest") + 1])]
        keep = {(r["file"], r["desc"]) for r in prev if r["status"] != "killed-by-tests"}
        idx = [i for i, m in enumerate(ms) if (m["file"], m["desc"]) in keep]
    else:
        idx = list(range(start, stop))
    done = set()
    if os.path.exists(out):
        for l in open(out):
            done.add(json.loads(l)["i"])
    with ThreadPoolExecutor(jobs) as ex, open(out, "a") as f:
        futs = [ex.submit(run_one, i, ms[i], workers) for i in idx if i not in done]
        for fu in futs:
            rec = fu.result()
            f.write(json.dumps(rec) + "\n")
            f.flush()
            print(rec["i"], rec["status"], rec.get("by", ""), rec["file"], rec["line"], rec["desc"][:80],
                  flush=True)


if __name__ == "__main__":
    main()
