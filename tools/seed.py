#!/venv/bin/python
"""Manage and run seeded property-breaking changes (never committed to /repo).

  seed.py import <src_dir> <seed_id>        copy patch.diff, demo.py, meta.json
  seed.py run <seed_id> [CHECK ...]         apply to /repo, run demo + tests + checks, revert
  seed.py runall [CHECK ...]                run every seed against the check of its property
"""
from __future__ import annotations

import json
import os
import shutil
import subprocess
import sys
import time

VERIF = os.path.dirname(os.path.dirname(os.path.abspath(__file__)))
SEEDED = os.path.join(VERIF, "seeded")
REPO = "/repo"
PY = "/venv/bin/python"


def sh(cmd, **kw):
    return subprocess.run(cmd, shell=isinstance(cmd, str), capture_output=True, text=True, **kw)


def revert() -> None:
    sh(f"git -C {REPO} reset -q && git -C {REPO} checkout -q -- . ")


def apply(patch: str) -> str:
    r = sh(f"git -C {REPO} apply {patch}")
    if r.returncode == 0:
        return "clean"
    r = sh(f"git -C {REPO} apply -3 {patch}")
    if r.returncode == 0:
        sh(f"git -C {REPO} reset -q")
        return "3way"
    revert()
    return "FAILED: " + r.stderr[-300:]


def cmd_import(src: str, sid: str) -> None:
    dst = os.path.join(SEEDED, sid)
    os.makedirs(dst, exist_ok=True)
    for f in ("patch.diff", "demo.py", "meta.json"):
        shutil.copy(os.path.join(src, f), os.path.join(dst, f))
    print("imported", sid)


def dirty() -> bool:
    r = sh(f"git -C {REPO} status --porcelain -- pyjelly")
    return bool(r.stdout.strip())


def cmd_run(sid: str, checks: list[str], tier: str = "quick") -> dict:
    d = os.path.join(SEEDED, sid)
    meta = json.load(open(os.path.join(d, "meta.json")))
    if dirty():
        print("refusing: /repo/pyjelly has uncommitted changes")
        sys.exit(2)
    res: dict = {"seed": sid, "property": meta.get("property"), "checks": {}}
    prev_path = os.path.join(d, "result.json")
    prev = json.load(open(prev_path)) if os.path.exists(prev_path) else {}
    # demo on the clean tree
    r = sh([PY, os.path.join(d, "demo.py"), REPO], timeout=600)
    res["demo_clean_rc"] = r.returncode
    how = apply(os.path.join(d, "patch.diff"))
    res["apply"] = how
    if how.startswith("FAILED"):
        print(sid, how)
        return res
    try:
        if how == "3way":
            # keep a patch that applies to the current HEAD
            r = sh(f"git -C {REPO} diff -- pyjelly")
            open(os.path.join(d, "patch.diff"), "w").write(r.stdout)
        rcs = []
        for hs in ("0", "1", "2", "3"):  # some demonstrations depend on rdflib's set order
            r = sh([PY, os.path.join(d, "demo.py"), REPO], timeout=600,
                   env={**os.environ, "PYTHONHASHSEED": hs})
            rcs.append(r.returncode)
            if r.returncode:
                break
        res["demo_patched_rc"] = max(rcs)
        res["demo_patched_rc_by_hashseed"] = rcs
        r = sh(f"cd {REPO} && {PY} -m pytest -q -p no:cacheprovider --timeout=900 2>&1 | tail -1")
        res["tests"] = r.stdout.strip()[-120:]
        for c in checks:
            t0 = time.time()
            r = sh(f"cd {VERIF} && ./check {c} {tier}", timeout=3600)
            viol = [l for l in r.stdout.splitlines() if l.startswith("VIOLATION")]
            what = [l.strip()[:300] for l in r.stdout.splitlines() if l.strip().startswith("what:")]
            res["checks"][c] = {"rc": r.returncode, "violations": len(viol),
                                "first": what[:1], "wall": round(time.time() - t0, 1)}
            if r.returncode not in (0, 1):
                res["checks"][c]["stderr"] = r.stderr[-500:]
    finally:
        revert()
    merged = dict(prev.get("checks", {}))
    merged.update(res["checks"])
    res["checks"] = merged
    res["repo_head"] = sh(f"git -C {REPO} log --format=%h -1").stdout.strip()
    res["tier"] = tier
    caught = [c for c, v in res["checks"].items() if v["rc"] == 1]
    res["caught_by"] = caught
    res["harness_errors"] = [c for c, v in res["checks"].items() if v["rc"] not in (0, 1)]
    print(json.dumps(res, indent=1))
    if res["harness_errors"]:
        print(f"!!! HARNESS-ERROR in {res['harness_errors']} while running seed {sid}")
    with open(os.path.join(d, "result.json"), "w") as f:
        json.dump(res, f, indent=1)
        f.write("\n")
    return res


def main() -> None:
    a = sys.argv[1:]
    if a[0] == "import":
        cmd_import(a[1], a[2])
    elif a[0] == "run":
        tier = "quick"
        if "--thorough" in a:
            a.remove("--thorough")
            tier = "thorough"
        cmd_run(a[1], a[2:], tier)
    elif a[0] == "runall":
        for sid in sorted(os.listdir(SEEDED)):
            meta = json.load(open(os.path.join(SEEDED, sid, "meta.json")))
            cmd_run(sid, a[1:] or [meta["property"]])


if __name__ == "__main__":
    main()
