"""Spec-level reference Jelly decoder ("any conformant consumer").

Written from the Jelly serialization specification and the comments in
rdf.proto; shares no code with pyjelly and uses only mc.jwire structures.
Strict: every rule whose breach makes the meaning of a stream undefined raises
SpecViolation(rule, frame index, row index).

Events:  ("opt", options dict) | ("st", terms tuple) | ("ns", name, ("I", iri))
Statements of a GRAPHS stream are reported as quads (s, p, o, g).
An audit record per row is kept in .audit (read by C19).
"""
from __future__ import annotations

from mc import jwire

PT_TRIPLES, PT_QUADS, PT_GRAPHS = 1, 2, 3
ALLOWED = {
    PT_TRIPLES: {"options", "triple", "namespace", "name", "prefix", "datatype"},
    PT_QUADS: {"options", "quad", "namespace", "name", "prefix", "datatype"},
    PT_GRAPHS: {"options", "triple", "graph_start", "graph_end", "namespace",
                "name", "prefix", "datatype"},
}
# physical type -> logical types (base = value % 10) the spec allows; 0 is free
LOGICAL_OK = {
    PT_TRIPLES: {1, 3},
    PT_QUADS: {2, 4},
    PT_GRAPHS: {2, 4},
}
KNOWN_LOGICAL = {0, 1, 2, 3, 4, 13, 14, 114}


class SpecViolation(Exception):
    def __init__(self, rule: str, frame: int, row: int, msg: str = "") -> None:
        super().__init__(f"{rule} at frame {frame} row {row}: {msg}")
        self.rule = rule
        self.frame = frame
        self.row = row


class Table:
    def __init__(self, size: int) -> None:
        self.size = size
        self.slots: dict[int, str] = {}
        self.last_entry = 0

    def snapshot(self) -> dict:
        return dict(self.slots)


class Decoder:
    def __init__(self, max_version: int = 2, strict_graphs: bool = True) -> None:
        self.options: dict | None = None
        self.max_version = max_version
        self.strict_graphs = strict_graphs  # False: a graph start may replace an open graph
        self.names = self.prefixes = self.datatypes = None
        self.last_prefix = 0
        self.last_name = 0
        self.prev: dict = {}
        self.graph_open = False
        self.graph = None
        self.audit: list[dict] = []
        self.fi = 0
        self.ri = 0
        self.nrows = 0

    # -------------------------------------------------------------- helpers
    def _bad(self, rule: str, msg: str = ""):
        raise SpecViolation(rule, self.fi, self.ri, msg)

    def _iri(self, t: tuple, aud: list) -> tuple:
        _, pid, nid = t
        assert self.names is not None and self.prefixes is not None
        rec = {"prefix_wire": pid, "name_wire": nid, "prefix_prev": self.last_prefix}
        # prefix
        if pid == 0:
            rpid = self.last_prefix
        else:
            rpid = pid
        if rpid == 0:
            prefix = ""
        else:
            if self.prefixes.size == 0:
                self._bad("prefix-ref-table-disabled", f"prefix_id {pid}")
            if rpid > self.prefixes.size:
                self._bad("prefix-ref-out-of-range", f"{rpid} > {self.prefixes.size}")
            if rpid not in self.prefixes.slots:
                self._bad("prefix-ref-unfilled", f"slot {rpid}")
            prefix = self.prefixes.slots[rpid]
            self.last_prefix = rpid
        rec["prefix_slot"] = rpid
        # name
        rnid = nid if nid != 0 else self.last_name + 1
        if rnid > self.names.size:
            self._bad("name-ref-out-of-range", f"{rnid} > {self.names.size}")
        if rnid not in self.names.slots:
            self._bad("name-ref-unfilled", f"slot {rnid}")
        rec["name_slot"] = rnid
        rec["name_prev"] = self.last_name
        name = self.names.slots[rnid]
        self.last_name = rnid
        rec["iri"] = prefix + name
        aud.append(rec)
        return ("I", prefix + name)

    def _literal(self, t: tuple, aud: list) -> tuple:
        _, lex, lang, dt = t
        assert self.datatypes is not None
        if lang is not None:
            return ("L", lex, lang or None, None)
        if dt is None:
            return ("L", lex, None, None)
        if dt == 0:
            self._bad("datatype-ref-zero")
        if self.datatypes.size == 0:
            self._bad("datatype-ref-table-disabled", f"datatype {dt}")
        if dt > self.datatypes.size:
            self._bad("datatype-ref-out-of-range", f"{dt} > {self.datatypes.size}")
        if dt not in self.datatypes.slots:
            self._bad("datatype-ref-unfilled", f"slot {dt}")
        aud.append({"datatype_slot": dt})
        return ("L", lex, None, self.datatypes.slots[dt])

    def _term(self, t: tuple, aud: list) -> tuple:
        k = t[0]
        if k == "iri":
            return self._iri(t, aud)
        if k == "bnode":
            return ("B", t[1])
        if k == "literal":
            return self._literal(t, aud)
        if k == "default":
            return ("D",)
        if k == "triple":
            d = t[1]
            out = []
            for slot in "spo":
                if slot not in d:
                    self._bad("repeat-in-quoted-triple", f"slot {slot} unset")
                out.append(self._term(d[slot], aud))
            return ("T", *out)
        self._bad("unknown-term", repr(t))
        return ()

    def _statement(self, d: dict, slots: str, aud: dict) -> list:
        out = []
        refs: list = []
        unset = []
        for slot in slots:
            if slot in d:
                term = self._term(d[slot], refs)
                self.prev[slot] = term
            else:
                unset.append(slot)
                if slot not in self.prev:
                    self._bad("repeat-without-previous", f"slot {slot}")
                term = self.prev[slot]
            out.append(term)
        aud["unset"] = unset
        aud["refs"] = refs
        return out

    def _entry(self, table: Table, which: str, e: dict, aud: dict) -> None:
        wid = e["id"]
        slot = wid if wid != 0 else table.last_entry + 1
        if table.size == 0:
            self._bad(f"{which}-entry-table-disabled")
        if slot < 1 or slot > table.size:
            self._bad(f"{which}-entry-out-of-range", f"{slot} not in [1,{table.size}]")
        aud.update(
            table=which,
            id_wire=wid,
            slot=slot,
            value=e["value"],
            resident=e["value"] in table.slots.values(),
            zero_possible=slot == table.last_entry + 1,
            live_before=len(table.slots),
        )
        table.slots[slot] = e["value"]
        table.last_entry = slot

    # ------------------------------------------------------------------ rows
    def _options(self, o: dict) -> list:
        if self.options is not None:
            if o != self.options:
                self._bad("options-changed", f"{o} != {self.options}")
            return []
        if self.nrows != 0:
            self._bad("options-not-first")
        pt = o["physical_type"]
        if pt not in (PT_TRIPLES, PT_QUADS, PT_GRAPHS):
            self._bad("physical-type-unsupported", str(pt))
        lt = o["logical_type"]
        if lt not in KNOWN_LOGICAL:
            self._bad("logical-type-unknown", str(lt))
        if lt != 0 and (lt % 10) not in LOGICAL_OK[pt]:
            self._bad("type-pair-forbidden", f"physical {pt} logical {lt}")
        if not 1 <= o["version"] <= self.max_version:
            self._bad("version-unsupported", str(o["version"]))
        if o["max_name_table_size"] < 8:
            self._bad("name-table-too-small", str(o["max_name_table_size"]))
        self.options = dict(o)
        self.names = Table(o["max_name_table_size"])
        self.prefixes = Table(o["max_prefix_table_size"])
        self.datatypes = Table(o["max_datatype_table_size"])
        return [("opt", dict(o))]

    def row(self, r: dict) -> list:
        kind = r["kind"]
        aud: dict = {"frame": self.fi, "row": self.ri, "kind": kind}
        try:
            if kind is None:
                self._bad("row-empty")
            if kind == "options":
                return self._options(r["v"])
            if self.options is None:
                self._bad("options-missing", f"first row is {kind}")
            assert self.options is not None
            pt = self.options["physical_type"]
            if kind not in ALLOWED[pt]:
                self._bad("row-kind-forbidden", f"{kind} in physical type {pt}")
            if kind == "name":
                self._entry(self.names, "name", r["v"], aud)
                return []
            if kind == "prefix":
                self._entry(self.prefixes, "prefix", r["v"], aud)
                return []
            if kind == "datatype":
                self._entry(self.datatypes, "datatype", r["v"], aud)
                return []
            if kind == "namespace":
                if self.options["version"] < 2:
                    self._bad("namespace-in-v1")
                if "iri" not in r["v"]:
                    self._bad("namespace-without-iri")
                refs: list = []
                iri = self._iri(r["v"]["iri"], refs)
                aud["refs"] = refs
                return [("ns", r["v"]["name"], iri)]
            if kind == "triple":
                if pt == PT_GRAPHS and not self.graph_open:
                    self._bad("triple-outside-graph")
                terms = self._statement(r["v"], "spo", aud)
                if pt == PT_GRAPHS:
                    terms.append(self.graph)
                return [("st", tuple(terms))]
            if kind == "quad":
                terms = self._statement(r["v"], "spog", aud)
                return [("st", tuple(terms))]
            if kind == "graph_start":
                if self.graph_open and self.strict_graphs:
                    self._bad("graph-start-inside-graph")
                if "g" not in r["v"]:
                    self._bad("graph-start-without-name")
                refs = []
                self.graph = self._term(r["v"]["g"], refs)
                aud["refs"] = refs
                self.graph_open = True
                return []
            if kind == "graph_end":
                if not self.graph_open:
                    self._bad("graph-end-without-start")
                self.graph_open = False
                return []
            self._bad("row-kind-unknown", str(kind))
            return []
        finally:
            self.audit.append(aud)
            self.nrows += 1

    def frame(self, fr: dict) -> list:
        out = []
        for i, r in enumerate(fr["rows"]):
            self.ri = i
            out.extend(self.row(r))
        self.fi += 1
        return out

    def finish(self) -> None:
        """End-of-stream rules."""
        if self.options is None:
            self.ri = 0
            self._bad("options-missing", "stream has no rows")
        if self.graph_open:
            self._bad("graph-unclosed")


def decode_frames(frames: list[dict], *, finish: bool = True, max_version: int = 2,
                  strict_graphs: bool = True):
    """Return (decoder, per-frame event lists). Raises SpecViolation."""
    d = Decoder(max_version=max_version, strict_graphs=strict_graphs)
    per = [d.frame(f) for f in frames]
    if finish:
        d.finish()
    return d, per


def decode_bytes(buf: bytes, delimited: bool = True, *, finish: bool = True):
    frames = jwire.read_delimited(buf) if delimited else jwire.read_single(buf)
    return decode_frames(frames, finish=finish)


def flat(per: list[list]) -> list:
    return [e for evs in per for e in evs]


def statements(per: list[list]) -> list:
    return [e[1] for evs in per for e in evs if e[0] == "st"]


def namespaces(per: list[list]) -> list:
    return [(e[1], e[2]) for evs in per for e in evs if e[0] == "ns"]
