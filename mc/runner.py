"""./check <ID> <quick|thorough>   |   ./check --replay <path>

Runs one property check against /repo's working tree, writes
evidence/<ID>.json, writes a replay file per violating case, prints
VIOLATION / KNOWN-FINDING lines, exit 0 / 1 (2 = harness fault).
"""
from __future__ import annotations

import hashlib
import importlib
import json
import os
import subprocess
import sys
import time
import traceback

from mc import env


def _jsonable(x):
    if isinstance(x, (str, int, float, bool)) or x is None:
        return x
    if isinstance(x, bytes):
        return {"hex": x.hex()}
    if isinstance(x, dict):
        return {str(k): _jsonable(v) for k, v in x.items()}
    if isinstance(x, (list, tuple)):
        return [_jsonable(v) for v in x]
    if isinstance(x, (set, frozenset)):
        return sorted((_jsonable(v) for v in x), key=repr)
    return repr(x)


class Ctx:
    def __init__(self, pid: str, tier: str, seed: int) -> None:
        self.pid = pid
        self.tier = tier
        self.seed = seed
        self.quick = tier == "quick"
        self.level = "exploration"
        self.coverage: dict = {}
        self.assumptions: list[str] = []
        self.violations: list[dict] = []
        self.viol_total = 0
        self.t0 = time.time()

    def add(self, merged: dict) -> None:
        """Fold a pool.merge() result into the run."""
        self.violations.extend(merged["violations"])
        self.viol_total += merged["viol_total"]

    def violation(self, sig: dict, what: str, case: dict, detail=None) -> None:
        self.viol_total += 1
        self.violations.append(
            {"sig": sig, "what": what, "case": case, "detail": detail}
        )


def load_known() -> list[dict]:
    p = os.path.join(env.VERIF, "known_findings.json")
    if not os.path.exists(p):
        return []
    with open(p) as f:
        data = json.load(f)
    return [e for e in data.get("findings", []) if e.get("status", "open") == "open"]


def match_known(pid: str, sig: dict, known: list[dict]) -> dict | None:
    for e in known:
        if e["property"] != pid:
            continue
        m = e["match"]
        if all(k in sig and sig[k] == v for k, v in m.items()):
            return e
    return None


def write_evidence(ctx: Ctx, n_unlisted: int) -> str:
    ev = {
        "property_id": ctx.pid,
        "tier": ctx.tier,
        "seed": ctx.seed,
        "level": ctx.level,
        "coverage": _jsonable(ctx.coverage),
        "assumptions": ctx.assumptions,
        "wall_s": round(time.time() - ctx.t0, 3),
        "violations": n_unlisted,
    }
    d = os.path.join(env.VERIF, "evidence")
    os.makedirs(d, exist_ok=True)
    path = os.path.join(d, f"{ctx.pid}.json")
    tmp = path + ".tmp"
    with open(tmp, "w") as f:
        json.dump(ev, f, indent=1, sort_keys=True)
        f.write("\n")
    os.replace(tmp, path)
    return path


def validate_evidence(path: str) -> None:
    schema = "/root/.vp/EVIDENCE.schema.json"
    if not (os.path.exists(schema) and _which("python3-vt")):
        return
    code = (
        "import json,sys,jsonschema;"
        "jsonschema.validate(json.load(open(sys.argv[1])),json.load(open(sys.argv[2])))"
    )
    r = subprocess.run(
        ["python3-vt", "-W", "ignore", "-c", code, path, schema],
        capture_output=True,
        text=True,
        check=False,
    )
    if r.returncode != 0:
        raise env.HarnessError("evidence does not validate:\n" + r.stderr[-2000:])


def _which(name: str) -> bool:
    return any(
        os.access(os.path.join(p, name), os.X_OK)
        for p in os.environ.get("PATH", "").split(os.pathsep)
    )


def write_replay(pid: str, v: dict) -> str:
    rec = {"property": pid, **_jsonable(v)}
    blob = json.dumps(rec, sort_keys=True)
    dig = hashlib.sha256(blob.encode()).hexdigest()[:16]
    d = os.path.join(env.VERIF, "replays", pid)
    os.makedirs(d, exist_ok=True)
    path = os.path.join(d, f"{dig}.json")
    with open(path, "w") as f:
        json.dump(rec, f, indent=1, sort_keys=True)
        f.write("\n")
    return path


def run_check(pid: str, tier: str) -> int:
    seed = int(os.environ.get("VERIF_SEED", "0") or 0)
    mod = importlib.import_module(f"mc.checks.{pid.lower()}")
    ctx = Ctx(pid, tier, seed)
    ctx.level = getattr(mod, "LEVEL", "exploration")
    mod.run(ctx)
    env.assert_repo_pyjelly()
    known = load_known()
    unlisted: list[dict] = []
    listed: dict[str, list] = {}
    for v in ctx.violations:
        e = match_known(pid, v["sig"], known)
        if e is None:
            unlisted.append(v)
        else:
            listed.setdefault(e["id"], [e, 0])[1] += 1
    ctx.coverage.setdefault("violating_cases_total", ctx.viol_total)
    ctx.coverage["known_finding_cases"] = sum(c for _, c in listed.values())
    path = write_evidence(ctx, len(unlisted))
    validate_evidence(path)
    for fid, (e, c) in sorted(listed.items()):
        print(f"KNOWN-FINDING: property={pid} {fid}: {e['what']} ({c} case(s) this run)")
    # one replay per distinct signature (at most 25 lines)
    seen: set = set()
    shown = 0
    for v in unlisted:
        key = json.dumps(_jsonable(v["sig"]), sort_keys=True)
        if key in seen:
            continue
        seen.add(key)
        rp = write_replay(pid, v)
        if shown < 25:
            print(f"VIOLATION property={pid} replay={rp}")
            print(f"  what: {v['what']}")
            shown += 1
    cov = ctx.coverage
    brief = {
        k: cov[k]
        for k in (
            "evaluations",
            "distinct_nontrivial",
            "states",
            "transitions",
            "traces_validated_against_impl",
            "exhaustive",
        )
        if k in cov
    }
    print(
        f"[{pid} {tier}] {brief} violations={len(unlisted)} "
        f"known={ctx.coverage['known_finding_cases']} wall={time.time() - ctx.t0:.1f}s"
    )
    return 1 if unlisted else 0


def run_replay(path: str) -> int:
    with open(path) as f:
        rec = json.load(f)
    pid = rec["property"]
    mod = importlib.import_module(f"mc.checks.{pid.lower()}")
    fails = mod.replay(rec["case"])
    if fails:
        print(f"VIOLATION property={pid} replay={path}")
        for x in fails[:5]:
            print("  ", x)
        return 1
    print(f"replay {path}: property {pid} holds on this case")
    return 0


def main(argv: list[str]) -> int:
    if len(argv) >= 2 and argv[0] == "--replay":
        return run_replay(argv[1])
    if len(argv) >= 3 and argv[1] == "--replay":
        return run_replay(argv[2])
    if len(argv) < 1:
        print("usage: check <ID> <quick|thorough> | check --replay <path>")
        return 2
    pid = argv[0].upper()
    tier = argv[1] if len(argv) > 1 else os.environ.get("VERIF_TIER", "quick")
    if tier not in ("quick", "thorough"):
        print("tier must be quick or thorough")
        return 2
    return run_check(pid, tier)


if __name__ == "__main__":
    env.pin(["-m", "mc.runner", *sys.argv[1:]])
    try:
        rc = main(sys.argv[1:])
    except env.HarnessError as e:
        print(f"HARNESS-ERROR: {e}", file=sys.stderr)
        rc = 2
    except Exception:  # noqa: BLE001
        traceback.print_exc()
        print("HARNESS-ERROR: unexpected exception in the machinery", file=sys.stderr)
        rc = 2
    sys.stdout.flush()
    sys.exit(rc)
