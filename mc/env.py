"""Process environment pinning: import pyjelly from /repo, fixed hash seed.

The tree under test is /repo/pyjelly (pure Python).  /venv's site-packages
holds a different, compiled pyjelly; importing that one would make every
verdict meaningless, so this module makes /repo win and proves it.
"""
from __future__ import annotations

import os
import sys

REPO = os.environ.get("VERIF_REPO", "/repo")
VERIF = os.path.dirname(os.path.dirname(os.path.abspath(__file__)))
PYTHON = "/venv/bin/python"
GUARD = "PYJELLY_VERIF"


class HarnessError(Exception):
    """A fault of the verification machinery itself (never a verdict)."""


def pin(argv: list[str] | None = None) -> None:
    """Re-exec once with PYTHONHASHSEED=0 and the guard set; pin sys.path."""
    if os.environ.get("PYTHONHASHSEED") != "0" or os.environ.get(GUARD) != "1":
        env = dict(os.environ)
        env["PYTHONHASHSEED"] = "0"
        env[GUARD] = "1"
        env["PYTHONDONTWRITEBYTECODE"] = "1"
        os.execve(sys.executable, [sys.executable, *(argv or sys.argv)], env)
    sys.dont_write_bytecode = True
    while REPO in sys.path:
        sys.path.remove(REPO)
    sys.path.insert(0, REPO)
    if VERIF not in sys.path:
        sys.path.insert(1, VERIF)
    import logging  # noqa: PLC0415
    import warnings  # noqa: PLC0415

    logging.getLogger("rdflib").setLevel(logging.CRITICAL)  # "does not look like a valid URI"
    warnings.filterwarnings("ignore")
    assert_repo_pyjelly()


def assert_repo_pyjelly() -> None:
    import pyjelly  # noqa: PLC0415

    root = os.path.realpath(REPO) + os.sep
    for name, mod in list(sys.modules.items()):
        if name == "pyjelly" or name.startswith("pyjelly."):
            f = getattr(mod, "__file__", None)
            if f is None:
                # namespace-ish package (pyjelly/__init__.py is empty but exists)
                paths = list(getattr(mod, "__path__", []))
                if not paths or not all(
                    os.path.realpath(p).startswith(root) for p in paths
                ):
                    raise HarnessError(f"{name} not imported from {REPO}: {paths}")
                continue
            if not os.path.realpath(f).startswith(root):
                raise HarnessError(f"{name} imported from {f}, not from {REPO}")
            if not f.endswith(".py"):
                raise HarnessError(f"{name} is not pure Python: {f}")
