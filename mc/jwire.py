"""Independent Jelly wire codec (protobuf wire format by hand).

Does not import google.protobuf, rdf_pb2 or pyjelly.  The message layout is
transcribed from the Jelly `rdf.proto` (package
eu.ostrzyciel.jelly.core.proto.v1); see /verif/spec/rdf.proto.

Plain structures:

  Frame   = {"rows": [Row, ...], "metadata": {str: bytes}}
  Row     = {"kind": K, "v": payload, "raw": bytes of the RdfStreamRow message}
  K       in options|triple|quad|graph_start|graph_end|namespace|name|prefix|datatype
  options = dict of the RdfStreamOptions fields (absent => proto3 default)
  entry   = {"id": int, "value": str}
  triple  = {"s": T?, "p": T?, "o": T?}            (missing key = slot unset)
  quad    = {"s","p","o","g"}
  graph_start = {"g": T?}
  namespace   = {"name": str, "iri": T? }
  T       = ("iri", prefix_id, name_id) | ("bnode", str)
          | ("literal", lex, langtag|None, datatype_id|None)
          | ("triple", {"s","p","o"}) | ("default",)
"""
from __future__ import annotations


class WireError(Exception):
    pass


# ---------------------------------------------------------------- primitives
def enc_varint(n: int) -> bytes:
    if n < 0:
        n += 1 << 64
    out = bytearray()
    while True:
        b = n & 0x7F
        n >>= 7
        if n:
            out.append(b | 0x80)
        else:
            out.append(b)
            return bytes(out)


def dec_varint(buf: bytes, pos: int) -> tuple[int, int]:
    shift = 0
    val = 0
    start = pos
    while True:
        if pos >= len(buf):
            raise WireError("truncated varint")
        b = buf[pos]
        pos += 1
        val |= (b & 0x7F) << shift
        if not b & 0x80:
            break
        shift += 7
        if pos - start >= 10:
            raise WireError("varint too long")
    return val & ((1 << 64) - 1), pos


def fields(buf: bytes) -> list[tuple[int, int, object]]:
    """Split a message into (field_number, wire_type, value)."""
    out = []
    pos = 0
    n = len(buf)
    while pos < n:
        key, pos = dec_varint(buf, pos)
        fno, wt = key >> 3, key & 7
        if fno == 0:
            raise WireError("field number 0")
        if wt == 0:
            v, pos = dec_varint(buf, pos)
        elif wt == 2:
            ln, pos = dec_varint(buf, pos)
            if pos + ln > n:
                raise WireError("truncated length-delimited field")
            v = buf[pos : pos + ln]
            pos += ln
        elif wt == 1:
            if pos + 8 > n:
                raise WireError("truncated fixed64")
            v = buf[pos : pos + 8]
            pos += 8
        elif wt == 5:
            if pos + 4 > n:
                raise WireError("truncated fixed32")
            v = buf[pos : pos + 4]
            pos += 4
        else:
            raise WireError(f"unsupported wire type {wt}")
        out.append((fno, wt, v))
    return out


def _tag(fno: int, wt: int) -> bytes:
    return enc_varint((fno << 3) | wt)


def f_varint(fno: int, v: int) -> bytes:
    return _tag(fno, 0) + enc_varint(v)


def f_bytes(fno: int, b: bytes) -> bytes:
    return _tag(fno, 2) + enc_varint(len(b)) + b


def f_str(fno: int, s: str) -> bytes:
    return f_bytes(fno, s.encode("utf-8"))


def _utf8(b: bytes) -> str:
    try:
        return b.decode("utf-8")
    except UnicodeDecodeError as e:
        raise WireError(f"invalid utf-8: {e}") from None


def _want(wt: int, exp: int, what: str) -> None:
    if wt != exp:
        raise WireError(f"{what}: wire type {wt}, expected {exp}")


# ------------------------------------------------------------------- decode
def dec_iri(b: bytes) -> tuple:
    p = n = 0
    for fno, wt, v in fields(b):
        if fno == 1:
            _want(wt, 0, "iri.prefix_id")
            p = v & 0xFFFFFFFF
        elif fno == 2:
            _want(wt, 0, "iri.name_id")
            n = v & 0xFFFFFFFF
    return ("iri", p, n)


def dec_literal(b: bytes) -> tuple:
    lex = ""
    lang = None
    dt = None
    for fno, wt, v in fields(b):
        if fno == 1:
            _want(wt, 2, "literal.lex")
            lex = _utf8(v)
        elif fno == 2:
            _want(wt, 2, "literal.langtag")
            lang, dt = _utf8(v), None
        elif fno == 3:
            _want(wt, 0, "literal.datatype")
            dt, lang = v & 0xFFFFFFFF, None
    return ("literal", lex, lang, dt)


_SPO = {0: "s", 1: "p", 2: "o"}


def _dec_term_field(kind: int, wt: int, v: object, what: str) -> tuple:
    _want(wt, 2, what)
    assert isinstance(v, bytes)
    if kind == 0:
        return dec_iri(v)
    if kind == 1:
        return ("bnode", _utf8(v))
    if kind == 2:
        return dec_literal(v)
    return ("triple", dec_triple(v))


def dec_triple(b: bytes) -> dict:
    out: dict = {}
    for fno, wt, v in fields(b):
        if 1 <= fno <= 12:
            slot = _SPO[(fno - 1) // 4]
            out[slot] = _dec_term_field((fno - 1) % 4, wt, v, f"triple.{fno}")
    return out


def _dec_graph_field(kind: int, wt: int, v: object, what: str) -> tuple:
    _want(wt, 2, what)
    assert isinstance(v, bytes)
    if kind == 0:
        return dec_iri(v)
    if kind == 1:
        return ("bnode", _utf8(v))
    if kind == 2:
        fields(v)
        return ("default",)
    return dec_literal(v)


def dec_quad(b: bytes) -> dict:
    out: dict = {}
    for fno, wt, v in fields(b):
        if 1 <= fno <= 12:
            slot = _SPO[(fno - 1) // 4]
            out[slot] = _dec_term_field((fno - 1) % 4, wt, v, f"quad.{fno}")
        elif 13 <= fno <= 16:
            out["g"] = _dec_graph_field(fno - 13, wt, v, f"quad.{fno}")
    return out


def dec_graph_start(b: bytes) -> dict:
    out: dict = {}
    for fno, wt, v in fields(b):
        if 1 <= fno <= 4:
            out["g"] = _dec_graph_field(fno - 1, wt, v, f"graph_start.{fno}")
    return out


def dec_entry(b: bytes) -> dict:
    out = {"id": 0, "value": ""}
    for fno, wt, v in fields(b):
        if fno == 1:
            _want(wt, 0, "entry.id")
            out["id"] = v & 0xFFFFFFFF
        elif fno == 2:
            _want(wt, 2, "entry.value")
            out["value"] = _utf8(v)
    return out


def dec_namespace(b: bytes) -> dict:
    out: dict = {"name": ""}
    for fno, wt, v in fields(b):
        if fno == 1:
            _want(wt, 2, "namespace.name")
            out["name"] = _utf8(v)
        elif fno == 2:
            _want(wt, 2, "namespace.value")
            out["iri"] = dec_iri(v)
    return out


OPTION_FIELDS = {
    1: ("stream_name", "str"),
    2: ("physical_type", "int"),
    3: ("generalized_statements", "bool"),
    4: ("rdf_star", "bool"),
    9: ("max_name_table_size", "int"),
    10: ("max_prefix_table_size", "int"),
    11: ("max_datatype_table_size", "int"),
    14: ("logical_type", "int"),
    15: ("version", "int"),
}
OPTION_DEFAULTS = {
    "stream_name": "",
    "physical_type": 0,
    "generalized_statements": False,
    "rdf_star": False,
    "max_name_table_size": 0,
    "max_prefix_table_size": 0,
    "max_datatype_table_size": 0,
    "logical_type": 0,
    "version": 0,
}


def dec_options(b: bytes) -> dict:
    out = dict(OPTION_DEFAULTS)
    for fno, wt, v in fields(b):
        if fno in OPTION_FIELDS:
            name, ty = OPTION_FIELDS[fno]
            if ty == "str":
                _want(wt, 2, name)
                out[name] = _utf8(v)
            elif ty == "bool":
                _want(wt, 0, name)
                out[name] = bool(v)
            else:
                _want(wt, 0, name)
                out[name] = v & 0xFFFFFFFF
    return out


ROW_KINDS = {
    1: "options",
    2: "triple",
    3: "quad",
    4: "graph_start",
    5: "graph_end",
    6: "namespace",
    9: "name",
    10: "prefix",
    11: "datatype",
}
ROW_FNO = {v: k for k, v in ROW_KINDS.items()}
_ROW_DEC = {
    "options": dec_options,
    "triple": dec_triple,
    "quad": dec_quad,
    "graph_start": dec_graph_start,
    "graph_end": lambda b: (fields(b), {})[1],
    "namespace": dec_namespace,
    "name": dec_entry,
    "prefix": dec_entry,
    "datatype": dec_entry,
}


def dec_row(b: bytes) -> dict:
    kind = None
    payload = None
    for fno, wt, v in fields(b):
        if fno in ROW_KINDS:
            _want(wt, 2, f"row.{fno}")
            kind = ROW_KINDS[fno]
            payload = _ROW_DEC[kind](v)
    return {"kind": kind, "v": payload, "raw": bytes(b)}


def dec_frame(b: bytes) -> dict:
    rows = []
    meta: dict = {}
    for fno, wt, v in fields(b):
        if fno == 1:
            _want(wt, 2, "frame.rows")
            rows.append(dec_row(v))
        elif fno == 15:
            _want(wt, 2, "frame.metadata")
            k, val = "", b""
            for f2, w2, v2 in fields(v):
                if f2 == 1:
                    _want(w2, 2, "metadata.key")
                    k = _utf8(v2)
                elif f2 == 2:
                    _want(w2, 2, "metadata.value")
                    val = bytes(v2)
            meta[k] = val
    return {"rows": rows, "metadata": meta}


def split_delimited(buf: bytes) -> list[bytes]:
    """Split a delimited byte string into the raw frame messages."""
    out = []
    pos = 0
    while pos < len(buf):
        ln, pos = dec_varint(buf, pos)
        if pos + ln > len(buf):
            raise WireError("truncated frame")
        out.append(buf[pos : pos + ln])
        pos += ln
    return out


def read_delimited(buf: bytes) -> list[dict]:
    return [dec_frame(b) for b in split_delimited(buf)]


def read_single(buf: bytes) -> list[dict]:
    return [dec_frame(buf)]


def frame_offsets(buf: bytes) -> list[tuple[int, int]]:
    """(start, end) byte offsets of every delimited frame incl. its length prefix."""
    out = []
    pos = 0
    while pos < len(buf):
        start = pos
        ln, pos = dec_varint(buf, pos)
        pos += ln
        if pos > len(buf):
            raise WireError("truncated frame")
        out.append((start, pos))
    return out


# ------------------------------------------------------------------- encode
def enc_iri(t: tuple) -> bytes:
    out = b""
    if t[1]:
        out += f_varint(1, t[1])
    if t[2]:
        out += f_varint(2, t[2])
    return out


def enc_literal(t: tuple) -> bytes:
    out = b""
    if t[1] != "":
        out += f_str(1, t[1])
    if t[2] is not None:
        out += f_str(2, t[2])
    elif t[3] is not None:
        out += f_varint(3, t[3])
    return out


def _enc_term(base: int, t: tuple) -> bytes:
    k = t[0]
    if k == "iri":
        return f_bytes(base, enc_iri(t))
    if k == "bnode":
        return f_str(base + 1, t[1])
    if k == "literal":
        return f_bytes(base + 2, enc_literal(t))
    if k == "triple":
        return f_bytes(base + 3, enc_triple(t[1]))
    raise WireError(f"cannot encode term {t!r}")


def _enc_graph(base: int, t: tuple) -> bytes:
    k = t[0]
    if k == "iri":
        return f_bytes(base, enc_iri(t))
    if k == "bnode":
        return f_str(base + 1, t[1])
    if k == "default":
        return f_bytes(base + 2, b"")
    if k == "literal":
        return f_bytes(base + 3, enc_literal(t))
    raise WireError(f"cannot encode graph term {t!r}")


def enc_triple(d: dict) -> bytes:
    out = b""
    for i, slot in enumerate("spo"):
        if slot in d:
            out += _enc_term(1 + 4 * i, d[slot])
    return out


def enc_quad(d: dict) -> bytes:
    out = enc_triple(d)
    if "g" in d:
        out += _enc_graph(13, d["g"])
    return out


def enc_graph_start(d: dict) -> bytes:
    return _enc_graph(1, d["g"]) if "g" in d else b""


def enc_entry(d: dict) -> bytes:
    out = b""
    if d.get("id"):
        out += f_varint(1, d["id"])
    if d.get("value", "") != "":
        out += f_str(2, d["value"])
    return out


def enc_namespace(d: dict) -> bytes:
    out = b""
    if d.get("name", "") != "":
        out += f_str(1, d["name"])
    if "iri" in d:
        out += f_bytes(2, enc_iri(d["iri"]))
    return out


def enc_options(d: dict) -> bytes:
    out = b""
    for fno in sorted(OPTION_FIELDS):
        name, ty = OPTION_FIELDS[fno]
        v = d.get(name, OPTION_DEFAULTS[name])
        if ty == "str":
            if v != "":
                out += f_str(fno, v)
        elif ty == "bool":
            if v:
                out += f_varint(fno, 1)
        elif v:
            out += f_varint(fno, v)
    return out


_ROW_ENC = {
    "options": enc_options,
    "triple": enc_triple,
    "quad": enc_quad,
    "graph_start": enc_graph_start,
    "graph_end": lambda d: b"",
    "namespace": enc_namespace,
    "name": enc_entry,
    "prefix": enc_entry,
    "datatype": enc_entry,
}


def enc_row(kind: str, payload: object) -> bytes:
    return f_bytes(ROW_FNO[kind], _ROW_ENC[kind](payload))


def mkrow(kind: str, payload: object) -> dict:
    return {"kind": kind, "v": payload, "raw": enc_row(kind, payload)}


def enc_frame(rows: list, metadata: dict | None = None) -> bytes:
    """rows: list of Row dicts (their raw bytes are reused) or raw bytes."""
    out = bytearray()
    for r in rows:
        raw = r if isinstance(r, (bytes, bytearray)) else r["raw"]
        out += f_bytes(1, raw)
    for k in metadata or {}:
        entry = f_str(1, k) + f_bytes(2, metadata[k])
        out += f_bytes(15, entry)
    return bytes(out)


def write_delimited(frames: list[bytes]) -> bytes:
    return b"".join(enc_varint(len(f)) + f for f in frames)


# --------------------------------------------------------------- self check
def selfcheck() -> None:
    for n in (0, 1, 10, 127, 128, 300, 16383, 16384, 2**32 - 1, 2**63):
        v, p = dec_varint(enc_varint(n), 0)
        assert v == n and p == len(enc_varint(n))
    iri = ("iri", 3, 0)
    lit = ("literal", "é", None, 2)
    q = {"s": iri, "p": ("bnode", ""), "o": ("triple", {"s": iri, "p": iri, "o": lit}),
         "g": ("default",)}
    rows = [
        mkrow("options", {"stream_name": "x", "physical_type": 2,
                          "max_name_table_size": 8, "version": 1}),
        mkrow("prefix", {"id": 0, "value": "http://a/"}),
        mkrow("name", {"id": 5, "value": ""}),
        mkrow("quad", q),
        mkrow("graph_start", {"g": ("literal", "", "en", None)}),
        mkrow("graph_end", {}),
        mkrow("namespace", {"name": "ex", "iri": ("iri", 1, 2)}),
    ]
    fr = enc_frame(rows, {"k": b"\x00\x01"})
    back = dec_frame(fr)
    assert [r["kind"] for r in back["rows"]] == [r["kind"] for r in rows]
    for a, b in zip(back["rows"], rows):
        if a["kind"] == "options":
            assert {k: v for k, v in a["v"].items() if v} == b["v"], (a, b)
        else:
            assert a["v"] == b["v"], (a, b)
        assert a["raw"] == b["raw"]
    assert back["metadata"] == {"k": b"\x00\x01"}
    assert read_delimited(write_delimited([fr, b"", fr]))[1] == {"rows": [], "metadata": {}}


def crosscheck_pb2() -> None:
    """Agree with rdf_pb2 on a fixed corpus (guards the harness only)."""
    from pyjelly import jelly  # noqa: PLC0415

    selfcheck()
    iri = ("iri", 3, 0)
    lit = ("literal", "é", None, 2)
    rows = [
        mkrow("options", {"stream_name": "ü", "physical_type": 3, "rdf_star": True,
                          "generalized_statements": True, "logical_type": 114,
                          "max_name_table_size": 4000, "max_prefix_table_size": 150,
                          "max_datatype_table_size": 32, "version": 2}),
        mkrow("datatype", {"id": 1, "value": "http://d"}),
        mkrow("quad", {"s": iri, "p": ("bnode", ""), "g": ("default",),
                       "o": ("triple", {"s": iri, "p": iri, "o": lit})}),
        mkrow("triple", {"s": ("literal", "", "en", None), "o": ("iri", 0, 0)}),
        mkrow("graph_start", {"g": ("bnode", "b")}),
        mkrow("graph_end", {}),
        mkrow("namespace", {"name": "", "iri": ("iri", 0, 7)}),
    ]
    mine = enc_frame(rows, {"a": b"\xff"})
    msg = jelly.RdfStreamFrame()
    msg.ParseFromString(mine)
    theirs = msg.SerializeToString(deterministic=True)
    if theirs != mine:
        raise AssertionError(f"jwire/rdf_pb2 disagree:\n{mine.hex()}\n{theirs.hex()}")
    r = msg.rows
    assert r[0].options.logical_type == 114 and r[0].options.stream_name == "ü"
    assert r[2].quad.o_triple_term.o_literal.datatype == 2
    assert r[2].quad.WhichOneof("graph") == "g_default_graph"
    assert r[3].triple.WhichOneof("object") == "o_iri"
    assert r[3].triple.WhichOneof("predicate") is None
    assert dec_frame(theirs)["rows"][3]["v"] == rows[3]["v"]
