"""Base streams shared by the I/O checks (C07, C09, C10, C11, C15, C16).

Each entry is a valid delimited stream written by the real serializer (generic
API), with what it denotes per frame according to the reference decoder.
"""
from __future__ import annotations

import functools

from mc import alphabets as AL
from mc import drivers as DR
from mc import jspec, jwire
from mc import terms as T
from mc.env import HarnessError


def _entry(name, cls, data, rdf11):
    frames = jwire.read_delimited(data)
    dec, per = jspec.decode_frames(frames)
    per = [[(e[0], T.norm_st(e[1])) if e[0] == "st" else e for e in evs if e[0] != "opt"]
           for evs in per]
    return {
        "name": name, "cls": cls, "data": data, "rdf11": rdf11, "per_frame": per,
        "flat": [e for evs in per for e in evs],
        "offsets": jwire.frame_offsets(data),
        "nrows": sum(len(f["rows"]) for f in frames),
    }


def with_empty_frames(data: bytes, positions=(0, 2)) -> bytes:
    raws = jwire.split_delimited(data)
    out = []
    for i, r in enumerate(raws):
        if i in positions:
            out.append(b"")
        out.append(r)
    out.append(b"")
    return jwire.write_delimited(out)


def options_only_first_frame() -> bytes:
    """A delimited stream whose first frame holds only the options row and is exactly 10 bytes
    long (so the stream starts 0A 0A 08), followed by a frame with statements. Built with the
    wire codec alone, so that it does not depend on how the library cuts frames."""
    for g in (False, True):
        for r in (False, True):
            for lt in (0, 1):
                opts = {"physical_type": 1, "logical_type": lt, "generalized_statements": g,
                        "rdf_star": r, "max_name_table_size": 8, "version": 1}
                first = jwire.enc_frame([jwire.mkrow("options", opts)])
                if len(first) != 10:
                    continue
                rows = [jwire.mkrow("name", {"id": 0, "value": f"http://a/{n}"})
                        for n in ("s0", "p", "s1", "s2")]
                rows.append(jwire.mkrow("triple", {"s": ("iri", 0, 1), "p": ("iri", 0, 0),
                                                   "o": ("literal", "0", None, None)}))
                rows.append(jwire.mkrow("triple", {"s": ("iri", 0, 0),
                                                   "o": ("literal", "1", None, None)}))
                rows.append(jwire.mkrow("triple", {"s": ("iri", 0, 0),
                                                   "o": ("literal", "2", None, None)}))
                return jwire.write_delimited([first, jwire.enc_frame(rows)])
    raise HarnessError("no option combination gives a 10-byte options-only frame")


def recut_per_statement(data: bytes, per: int = 1) -> bytes:
    """The rows of a delimited triple stream re-cut with the wire codec so that a frame ends
    after every `per`-th statement row, wherever the library put its own frame cuts."""
    rows = [r for f in jwire.read_delimited(data) for r in f["rows"]]
    frames, cur, n = [], [], 0
    for r in rows:
        cur.append(r)
        if r["kind"] in ("triple", "quad"):
            n += 1
            if n % per == 0:
                frames.append(jwire.enc_frame(cur))
                cur = []
    if cur:
        frames.append(jwire.enc_frame(cur))
    return jwire.write_delimited(frames)


def exact_frames_stream(targets, pad: int = 1) -> bytes:
    """One statement per frame; frames 2.. have exactly the given byte lengths (the literal of
    each statement is sized by search), e.g. multiples of 128 whose length prefix starts 0x80."""
    from mc.terms import I, L  # noqa: PLC0415

    opts = lambda: DR.make_options("triple", (16, 4, 4), 250, True)  # noqa: E731
    seq = [(I("http://a/s0"), I("http://a/p"), L("first"))]
    for t in targets:
        k = max(0, t - 40)
        for _ in range(12):
            cand = seq + [(I(f"http://a/s{len(seq)}"), I("http://a/p"), L("x" * k))]
            data = recut_per_statement(DR.g_write(cand, "triple", opts()))
            ln = len(jwire.split_delimited(data)[-1])
            if ln == t:
                break
            k = max(0, k + (t - ln))
        else:
            raise HarnessError(f"cannot build a frame of exactly {t} bytes")
        seq = cand
    for i in range(pad):
        seq.append((I("http://a/last"), I("http://a/p"), L(str(i))))
    return recut_per_statement(DR.g_write(seq, "triple", opts()))


def metadata_first_frame() -> bytes:
    """A delimited stream whose first frame has no rows, only metadata, and is exactly 10 bytes
    long (header 0A 7A 08); three ordinary frames follow."""
    from mc.terms import I, L  # noqa: PLC0415

    seq = [(I(f"http://a/s{i}"), I("http://a/p"), L(str(i))) for i in range(6)]
    data = DR.g_write(seq, "triple", DR.make_options("triple", (16, 4, 4), 5, True))
    raws = jwire.split_delimited(data)
    lead = jwire.enc_frame([], {"k": b"abc"})
    if len(lead) != 10:
        raise HarnessError(f"metadata frame is {len(lead)} bytes, not 10")
    return jwire.write_delimited([lead, *raws])


@functools.cache
def base_streams(size: str = "small") -> tuple:
    """size: 'small' (fewer, for quick) or 'full'."""
    out = []
    scopes = list(AL.SCOPES)
    frame_sizes = (1, 3, 250) if size == "full" else (2, 250)
    for scope in scopes:
        sc = AL.SCOPES[scope]
        preset = sc["presets"][1]
        for cls in DR.CLASSES:
            alpha = AL.alphabet(scope, 3 if cls == "triple" else 4)
            seq = [s for s in alpha if AL.fits(s, preset)]
            seq = seq + seq[:2]
            rdf11 = all(T.is_rdf11(s) for s in seq)
            for fs in frame_sizes:
                opts = DR.make_options(cls, preset, fs, True)
                data = DR.g_write(seq, cls, opts, "stream_frames_gen")
                out.append(_entry(f"{scope}/{cls}/fs{fs}", cls, data, rdf11))
    # namespace declarations + empty frames
    seq3 = [s for s in AL.triples("prefix")][:4]
    seq4 = [s for s in AL.quads("prefix")][:4]
    bind = [("ex", "http://a/"), ("", "urn:x"), ("é", "http://é/#")]
    for cls, seq in (("triple", seq3), ("quad", seq4), ("graph", seq4)):
        opts = DR.make_options(cls, (8, 4, 0), 2, True, ns=True)
        data = DR.g_write(seq, cls, opts, "stream_frames_sink", bindings=[(p, i) for p, i in bind])
        out.append(_entry(f"ns/{cls}", cls, data, True))
        out.append(_entry(f"ns+empty/{cls}", cls, with_empty_frames(data), True))
    # frames of 128+ bytes (two-byte length prefixes), still a short stream
    from mc import roundtrip as RT0  # noqa: PLC0415

    for cls in ("triple", "graph"):
        seq = RT0.scale_seq("names300", 3 if cls == "triple" else 4)[:14]
        data = DR.g_write(seq, cls, DR.make_options(cls, (16, 4, 4), 12, True))
        out.append(_entry(f"mid/{cls}/fs12", cls, data, all(T.is_rdf11(s) for s in seq)))
    out.append(_entry("optonly10/triple", "triple", options_only_first_frame(), True))
    out.append(_entry("meta10/triple", "triple", metadata_first_frame(), True))
    out.append(_entry("exact128/triple", "triple", exact_frames_stream((128, 256, 384)), True))
    e = _entry("frame20k/triple", "triple", exact_frames_stream((20000,), pad=2), True)
    e["big"] = True  # (restricted cut / schedule sets in C09 and C10)
    out.append(e)
    # the FIRST frame (options row included) lies between 8 KiB and 16 KiB, small frames follow
    from mc.terms import I as _I, L as _L  # noqa: PLC0415

    seq9 = [(_I("http://a/s0"), _I("http://a/p"), _L("n" * 9000))] + [
        (_I(f"http://a/s{i}"), _I("http://a/p"), _L(str(i))) for i in range(1, 4)]
    e = _entry("first9k/triple", "triple", recut_per_statement(
        DR.g_write(seq9, "triple", DR.make_options("triple", (16, 4, 4), 250, True))), True)
    e["big"] = True
    out.append(e)
    if size == "full":
        # boundary-crossing streams: frames larger than BufferedReader's 8 KiB buffer and than
        # the 16383/16384 varint boundary, many frames, very long strings
        from mc import roundtrip as RT  # noqa: PLC0415

        for kind, cls, fs in (("names300", "triple", 250), ("names300", "quad", 40),
                              ("runs", "graph", 64), ("longstrings", "triple", 250)):
            seq = RT.scale_seq(kind, 3 if cls == "triple" else 4)
            data = DR.g_write(seq, cls, DR.make_options(cls, (4000, 150, 32), fs, True))
            e = _entry(f"big/{kind}/{cls}/fs{fs}", cls, data, all(T.is_rdf11(s) for s in seq))
            e["big"] = True
            out.append(e)
    for e in out:
        # the corpus itself must be readable by the code under test (else: harness problem
        # or a C01 violation that C01 reports) -- checked lazily by the users
        if not e["flat"]:
            raise HarnessError(f"corpus stream {e['name']} is empty")
    return tuple(out)
