"""Enumeration of the rdflib serializer input/configuration space (C02, C03, C19).

RDF 1.1 alphabets only (s IRI|BNode, p IRI, o any, g IRI|BNode|default), all
terms are rdflib-normalisation fixpoints (asserted before any pyjelly code runs).
"""
from __future__ import annotations

from mc import alphabets as AL
from mc import drivers as DR
from mc import pool
from mc import terms as T
from mc.env import HarnessError
from mc.terms import B, DEFAULT, I, L, XSD_STRING

AX, AY, AP = I("http://a/x"), I("http://a/y"), I("http://a/p")
D1, D2, D3 = "http://a/x", "http://a/y", "http://b#x"

R_SCOPES = {
    "r_prefix": {
        "triples": AL.SCOPES["prefix"]["triples"],
        "presets": [(8, 0, 0), (8, 3, 0), (8, 4, 0), (4000, 150, 32)],
    },
    "r_name": {
        "triples": AL.SCOPES["name"]["triples"],
        "presets": [(8, 0, 0), (8, 2, 0), (9, 2, 0), (4000, 150, 32)],
    },
    "r_repeat": {
        "triples": [
            (B("x"), AX, B("x")),
            (B("x"), AX, L("x")),
            (I("x"), AX, L("x")),
            (B("x"), AY, L("x")),
            (B("b"), AX, L("")),
            (AX, AX, AX),
        ],
        "presets": [(8, 0, 0), (8, 2, 0), (8, 2, 1), (4000, 150, 32)],
    },
    "r_datatype": {
        "triples": [
            (AX, AP, L("x", None, D1)),
            (AX, AP, L("x", None, D2)),
            (AX, AP, L("y", None, D1)),
            # (a datatype whose IRI is a proper part of the xsd:string IRI: the XSD namespace)
            (B("b"), AP, L("x", None, "http://www.w3.org/2001/XMLSchema#")),
            (AX, AP, L("x", None, XSD_STRING)),
            (AX, AP, L("x")),  # (the same text plain: another term than the one typed xsd:string)
        ],
        "presets": [(8, 0, 1), (8, 1, 2), (8, 2, 3), (4000, 150, 32)],
    },
    "r_noseparator": {
        # IRIs without '/' or '#' whose text equals a local name used under a prefix
        "triples": [
            (I("alice"), I("http://e/alice"), I("alice")),
            (I("http://e/alice"), I("alice"), L("alice")),
            (I("bob"), I("http://e/p"), I("http://e/bob")),
            (I("http://e/"), I("p"), I("http://e/p")),
            # (the IRI rdflib uses as default-graph sentinel, here an ordinary subject and object)
            (I("urn:x-rdflib:default"), I("http://e/p"), I("urn:x-rdflib:default")),
            (B("alice"), I("http://f#alice"), I("alice")),
        ],
        "presets": [(8, 0, 0), (8, 3, 0), (16, 4, 0), (4000, 150, 32)],
    },
    "r_langcase": {
        # written by the generic serializer / reference encoder only and *parsed* by both
        # integrations: rdflib itself treats tags that differ in case as equal terms
        "triples": [
            (AX, AP, L("colour", "en-GB")),
            (AX, AP, L("colour", "en-gb")),
            (AX, AP, L("colour", "EN-GB")),
            (AX, AP, L("colour", "en")),
            (AX, AY, L("colour", "en-GB")),
            (AX, AP, L("color", "en-GB")),
        ],
        "presets": [(8, 0, 0), (8, 1, 0), (8, 1, 0), (4000, 150, 32)],
        "parse_only": True,
    },
    "r_dtpressure": {
        # one datatype per statement: five distinct ones are needed to evict twice in a row
        "triples": [(AX, AP, L("x", None, f"http://d/{i}")) for i in range(6)],
        "presets": [(8, 1, 3), (8, 1, 3), (8, 1, 3), (8, 1, 3)],
        "maxlen": 5,
        "restricted": True,
    },
}
XSD_INTEGER = "http://www.w3.org/2001/XMLSchema#integer"
XSD_BOOLEAN = "http://www.w3.org/2001/XMLSchema#boolean"
R_SCOPES["r_falsy"] = {
    # literals whose rdflib object is falsy in Python ("" / 0 / false), shared between statements
    "triples": [
        (AX, AP, L("")),
        (AY, AP, L("")),
        (AX, AP, L("0", None, XSD_INTEGER)),
        (AY, AP, L("0", None, XSD_INTEGER)),
        (AX, AY, L("false", None, XSD_BOOLEAN)),
        (B("b"), AY, L("false", None, XSD_BOOLEAN)),
    ],
    "presets": [(8, 1, 2)] * 4,
    "restricted": True,
}
R_SCOPES["r_samegraph"] = {
    # one triple in several graphs: consecutive quads that differ in the graph name only
    "triples": AL.SCOPES["samegraph"]["triples"],
    "presets": AL.SCOPES["samegraph"]["presets"],
    "gnames": AL.SCOPES["samegraph"]["gnames"],
}
R_SCOPES["r_langtags"] = {
    # language tags that are not in BCP 47 recommended case, on literals that stay distinct
    # under rdflib's case-insensitive comparison: the tag must come back exactly as written
    "triples": [
        (AX, AP, L("a", "EN")),
        (AX, AP, L("b", "en-us")),
        (AX, AP, L("c", "zh-hant")),
        (AX, AP, L("d", "en-x-Foo")),
        (AX, AP, L("e", "de-CH-1996")),
        (AY, AP, L("a", "En-gB")),
    ],
    "presets": [(8, 1, 0)] * 4,
    "restricted": True,
}
R_SCOPES["r_bnodes"] = {
    # blank-node labels with leading '_' / ':' / "_:" (legal strings for both integrations),
    # next to labels that differ from them only by those characters
    "triples": [
        (B("_:b1"), AP, B("b1")),
        (B("b1"), AP, B("_b")),
        (B("_b"), AP, B(":y")),
        (B(":y"), AP, L("x")),
        (B("__x"), AP, B("x")),
        (B("x"), AP, B("_:b1")),
    ],
    "presets": [(8, 0, 0), (8, 1, 0), (8, 2, 0), (4000, 150, 32)],
    # (graph names: a blank node whose label is the text of an IRI graph name in the same
    #  dataset, and one whose label is the text of rdflib's default-graph identifier)
    "gnames": [DEFAULT, B("_:g"), B("http://a/g"), B("urn:x-rdflib:default"), I("http://a/g"),
               B("_:b1")],
}
GNAMES = [DEFAULT, I("http://a/x"), I("http://a/x"), B("x"), DEFAULT, I("http://b#x")]
FRAME_SIZES = (1, 250)
# (logical type kind, delimited)
MODES = (("flat", True), ("grouped", True), ("flat", False))
GROUPED_LT = {"triple": 3, "quad": 4, "graph": 4}


def alphabet(scope: str, cls: str) -> list:
    tr = R_SCOPES[scope]["triples"]
    return tr if cls == "triple" else [(*t, g) for t, g in zip(tr, R_SCOPES[scope].get("gnames",
                                                                                        GNAMES))]


def assert_fixpoints() -> None:
    for name, sc in R_SCOPES.items():
        for cls in ("triple", "quad"):
            for st in alphabet(name, cls):
                if not T.is_rdf11(st):
                    raise HarnessError(f"{name}: {st} is not RDF 1.1")
                for i, t in enumerate(st):
                    if T.from_rdflib(T.to_rdflib(t), graph_pos=(i == 3)) != tuple(t):
                        raise HarnessError(f"{name}: rdflib normalises {t}")


def jobs(maxlen: int, parts: int = 2, entry_len: int = 2) -> list:
    from mc import roundtrip as RT  # noqa: PLC0415

    out = [("R", "S", kind, cls, pi, 0, 0, 0) for kind in RT.SCALE_KINDS for cls in DR.CLASSES
           for pi in range(len(RT.SCALE_PRESETS))]
    for scope, sc in R_SCOPES.items():
        if sc.get("parse_only"):
            continue
        L = max(maxlen, sc.get("maxlen", 0))
        n = AL.n_sequences(6, L)
        if sc.get("restricted"):
            for cls in ("triple", "graph"):
                for lo, hi in pool.split_range(n, parts * 4):
                    out.append(("R", "C", scope, cls, 0, L, lo, hi))
            continue
        for cls in DR.CLASSES:
            for pi in range(4):
                for lo, hi in pool.split_range(n, parts):
                    out.append(("R", "A", scope, cls, pi, L, lo, hi))
            out.append(("R", "B", scope, cls, 0, entry_len, 0, AL.n_sequences(6, entry_len)))
    return out


def entry_configs(cls: str) -> list:
    out = []
    for pi in (1, 3):
        for w in DR.R_WRITERS:
            if cls == "graph" and w in ("flat_to_frames", "flat_to_file", "graph_serialize_options",
                                        "grouped_to_file", "flat_to_frames_iter"):
                continue  # these choose the stream class themselves (never GraphStream)
            out.append((pi, 2, "flat", True, w))
    if cls != "graph":
        out.append((3, 250, "flat", True, "graph_serialize_default"))  # no options at all
        out.append((3, 250, "flat", True, "flat_to_file_default"))
        out.append((3, 250, "flat", True, "grouped_to_file_default"))
    return out


def expected_cases(js: list) -> int:
    tot = 0
    for _, kind, scope, cls, pi, L, lo, hi in js:
        if kind == "S":
            tot += 4 if scope == "mega" else 3
        elif kind == "A":
            tot += (hi - lo) * (len(FRAME_SIZES) * len(MODES) + (1 if cls != "triple" else 0) + 1)
        elif kind == "C":
            tot += hi - lo
        else:
            tot += (hi - lo) * len(entry_configs(cls))
    return tot


def make_opts(cls: str, preset, fs: int, lkind: str, delimited: bool):
    lt = None if lkind == "flat" else GROUPED_LT[cls]
    return DR.make_options(cls, preset, fs, delimited, lt, generalized=False, rdf_star=False)


def run_scale(job, judge) -> dict:
    from mc import roundtrip as RT  # noqa: PLC0415

    _, _, kind, cls, pi, _, _, _ = job
    DR.ensure_rdflib_plugin()
    acc = pool.Acc()
    preset = RT.SCALE_PRESETS[pi]
    seq = RT.scale_seq(kind, 3 if cls == "triple" else 4)
    for fs, lk, dl in ((250, "flat", True), (127, "flat", True), (250, "flat", False)) + (
            ((1, "flat", True),) if kind == "mega" else ()):
        acc.evals += 1
        if not all(AL.fits(st, preset) for st in seq):
            acc.counters["out_of_domain"] += 1
            continue
        acc.nontrivial += 1
        case = {"api": "rdflib", "family": "scale", "scope": kind, "cls": cls,
                "preset": list(preset), "frame_size": fs, "logical": lk, "delimited": dl,
                "writer": "graph_serialize_stream", "seq": []}
        try:
            data = DR.r_write(seq, cls, make_opts(cls, preset, fs, lk, dl), "graph_serialize_stream")
        except Exception as e:  # noqa: BLE001
            judge(case, seq, None, e, acc)
            continue
        judge(case, seq, data, None, acc)
    acc.sample({"api": "rdflib", "family": "scale", "kind": kind, "cls": cls, "preset": preset},
               cap=1)
    return acc.out()


def run_job(job, judge, include_out_of_domain: bool = False) -> dict:
    if job[1] == "S":
        return run_scale(job, judge)
    _, kind, scope, cls, pi, L, lo, hi = job
    DR.ensure_rdflib_plugin()
    acc = pool.Acc()
    alpha = alphabet(scope, cls)
    presets = R_SCOPES[scope]["presets"]
    for idx in range(lo, hi):
        sym = AL.seq_at(idx, 6, L)
        seq = [alpha[i] for i in sym]
        if kind == "A":
            configs = [(pi, fs, lk, dl, "graph_serialize_stream")
                       for fs in FRAME_SIZES for lk, dl in MODES]
            if cls != "triple":
                # the same dataset with two registered but empty named graphs
                configs.append((pi, 250, "flat", True, "graph_serialize_stream+empty"))
            # the container's (default) namespace bindings declared in the stream
            configs.append((pi, 250, "flat", True, "graph_serialize_stream+ns"))
        elif kind == "C":
            configs = [(pi, 250, "flat", True, "graph_serialize_stream")]
        else:
            configs = entry_configs(cls)
        for cpi, fs, lk, dl, writer in configs:
            preset = presets[cpi]
            acc.evals += 1
            ood = not all(AL.fits(st, preset) for st in seq)
            if ood:
                acc.counters["out_of_domain"] += 1
                if not include_out_of_domain:
                    continue
            case = {"api": "rdflib", "scope": scope, "cls": cls, "preset": list(preset),
                    "frame_size": fs, "logical": lk, "delimited": dl, "writer": writer,
                    "seq": list(sym)}
            if ood:
                case["out_of_domain"] = True
            if len(set(sym)) >= 2:
                acc.nontrivial += 1
            try:
                opts = make_opts(cls, preset, fs, lk, dl)
                if writer.endswith("+ns"):
                    opts = DR.make_options(cls, preset, fs, dl, generalized=False, rdf_star=False,
                                           ns=True)
                data = DR.r_write(seq, cls, opts, writer)
            except Exception as e:  # noqa: BLE001
                judge(case, seq, None, e, acc)
                continue
            judge(case, seq, data, None, acc)
            if idx % 101 == 0:
                acc.sample({**case, "statements": seq, "bytes": len(data)}, cap=2)
    return acc.out()


def replay_case(case: dict, judge) -> list:
    DR.ensure_rdflib_plugin()
    acc = pool.Acc()
    if case.get("family") == "scale":
        from mc import roundtrip as RT  # noqa: PLC0415

        seq = RT.scale_seq(case["scope"], 3 if case["cls"] == "triple" else 4)
    else:
        alpha = alphabet(case["scope"], case["cls"])
        seq = [alpha[i] for i in case["seq"]]
    try:
        opts = make_opts(case["cls"], tuple(case["preset"]), case["frame_size"], case["logical"],
                         case["delimited"])
        if case["writer"].endswith("+ns"):
            opts = DR.make_options(case["cls"], tuple(case["preset"]), case["frame_size"],
                                   case["delimited"], generalized=False, rdf_star=False, ns=True)
        data = DR.r_write(seq, case["cls"], opts, case["writer"])
    except Exception as e:  # noqa: BLE001
        judge(case, seq, None, e, acc)
    else:
        judge(case, seq, data, None, acc)
    return [v["what"] for v in acc.violations]
