"""Small colliding alphabets ("scopes") and sequence enumeration.

Every scope is a list of <= 6 neutral triples built for one purpose; quads are
derived with a fixed graph-name pattern that includes consecutive equal names,
the default graph, blank-node and (generalized) literal graph names.
"""
from __future__ import annotations

from mc.terms import B, DEFAULT, I, L, T, XSD_STRING

A = "http://a/"
D1 = "http://a/x"  # datatype IRI equal to a term IRI (shared strings across tables)
D2 = "http://a/y"
D3 = "http://b#x"

AX, AY, BX, BY = I("http://a/x"), I("http://a/y"), I("http://b#x"), I("http://b#y")
CX, CY = I("http://c/x"), I("http://c/y")
AP = I("http://a/p")

SCOPES: dict[str, dict] = {}


def _scope(name, triples, presets, generic_only=False, gnames=None, note=""):
    SCOPES[name] = {
        "name": name,
        "triples": triples,
        "presets": presets,  # (names, prefixes, datatypes)
        "generic_only": generic_only,
        "gnames": gnames
        or [DEFAULT, I("http://a/x"), I("http://a/x"), B("x"), DEFAULT, I("http://b#x")],
        "note": note,
    }


# 1. prefix eviction: three prefixes, colliding local names, odd IRIs
_scope(
    "prefix",
    [
        (AX, AY, AX),
        (BX, AY, BY),
        (CX, CY, AX),
        (I("http://a/b#c"), AY, I("http://a/")),
        (I("urn:x"), I("x"), I("")),
        (CX, AY, BX),
    ],
    [(8, 0, 0), (8, 3, 0), (8, 4, 0), (4000, 150, 32)],
    note="k=3 distinct prefixes in one statement; tables 0, k, k+1, default",
)

# 2. datatype eviction (typed literals also in generalized subject position)
_scope(
    "datatype",
    [
        (AX, AP, L("x", None, D1)),
        (AX, AP, L("x", None, D2)),
        (AX, AP, L("y", None, D1)),
        (L("x", None, "http://www.w3.org/2001/XMLSchema#"), AP, L("x", None, D1)),
        (AX, AP, L("x", None, XSD_STRING)),
        (AX, AP, L("x", "en")),
    ],
    [(8, 0, 2), (8, 2, 3), (9, 150, 32), (8, 1, 2)],
    generic_only=True,
    gnames=[DEFAULT, L("g"), L("g", None, D2), B("x"), DEFAULT, I("http://a/x")],
    note="k=2 datatypes in one statement; tables k, k+1, default; literal graph names",
)

# 3. name eviction: ten names against a table of 8
_N = [I(f"http://a/n{i}") for i in range(10)]
_scope(
    "name",
    [
        (_N[0], _N[1], _N[2]),
        (_N[3], _N[4], _N[5]),
        (_N[6], _N[7], _N[8]),
        (_N[9], _N[0], _N[3]),
        (_N[1], _N[9], _N[6]),
        (_N[2], _N[1], _N[0]),
    ],
    [(8, 0, 0), (8, 1, 0), (9, 2, 0), (4000, 150, 32)],
    note="three statements already need 9 names > 8",
)

# 4. repeated-term elision: shared positions, duplicates, bnode/IRI/literal lookalikes
_scope(
    "repeat",
    [
        (B("x"), AX, B("x")),
        (B("x"), AX, L("x")),
        (I("x"), AX, L("x")),
        (B("x"), AY, L("x")),
        (B(""), AX, L("")),
        (AX, AX, AX),
    ],
    [(8, 0, 0), (8, 1, 0), (8, 2, 1), (4000, 150, 32)],
    note="equal terms in equal slots, full duplicates, same text as different term kinds",
)

# 5. quoted triples and generalized positions (generic API only)
_Q1 = T(AX, AY, L("x"))
_Q2 = T(T(B("x"), AX, AY), AX, L("x", None, D1))
_scope(
    "quoted",
    [
        (_Q1, AP, AX),
        (AX, AP, _Q1),
        (_Q2, AP, _Q1),
        (L("x"), B("b"), _Q2),
        (AX, _Q1, _Q2),  # a quoted triple as predicate (generalized) and as object
        (B("x"), B("x"), B("x")),
    ],
    [(8, 0, 1), (8, 2, 1), (8, 1, 2), (4000, 150, 32)],
    generic_only=True,
    gnames=[DEFAULT, I("http://a/x"), L("x"), B("x"), B("x"), DEFAULT],
    note="quoted triples (nested), literal subjects, blank-node predicates",
)

# 6. literal kinds and Unicode
_scope(
    "literal",
    [
        (AX, AP, L("")),
        (AX, AP, L("x")),
        (AX, AP, L("x", "en")),
        # (an IRI that is not in Unicode normal form C: decomposed accents, OHM SIGN)
        (I("http://e\u0301.example/u\u0308\u2126"), AP, L("é", "fr")),
        # (typed rdf:langString but without a language tag: an ordinary typed literal)
        (AX, AP, L("x", None, "http://www.w3.org/1999/02/22-rdf-syntax-ns#langString")),
        (B("b"), AP, L("x", None, XSD_STRING)),
    ],
    [(8, 0, 1), (8, 1, 1), (8, 2, 2), (4000, 150, 32)],
    note="empty/non-ASCII lexical forms, language tags, xsd:string, rdf:langString without a tag",
)


# 7. datatype pressure: six datatypes, two per statement, against tables of 3 and 4
_DT = [f"http://d/{i}" for i in range(6)]
_scope(
    "dtpressure",
    [
        (L("x", None, _DT[0]), AP, L("x", None, _DT[1])),
        (L("x", None, _DT[2]), AP, L("x", None, _DT[3])),
        (L("x", None, _DT[4]), AP, L("x", None, _DT[5])),
        (L("y", None, _DT[1]), AP, L("x", None, _DT[4])),
        (AX, AP, L("x", None, _DT[0])),
        (L("x", None, _DT[3]), AP, L("y", None, _DT[3])),
    ],
    [(8, 0, 3), (8, 1, 3), (8, 1, 4), (4000, 150, 32)],
    generic_only=True,
    gnames=[DEFAULT, I("http://a/x"), L("g", None, _DT[5]), B("x"), DEFAULT, L("g", None, _DT[2])],
    note="three statements use six datatypes: consecutive evictions in a table of 3",
)


# 8. unusual but legal inputs
_SENT = I("urn:x-rdflib:default")  # equals rdflib's default-graph sentinel; an ordinary IRI here
_scope(
    "odd",
    [
        (B("a b"), _SENT, L("x", "EN-gb")),
        (B("_:x"), AP, L("x", "en-GB")),
        (_SENT, AP, L("", None, XSD_STRING)),
        # (a language-tagged string that also states its datatype rdf:langString)
        (B("é"), AP, L("x", "EN", "http://www.w3.org/1999/02/22-rdf-syntax-ns#langString")),
        (AX, AP, L("x", None, XSD_STRING + " ")),
        (B(""), I(""), L("\x00\n\t\"")),
    ],
    [(8, 0, 1), (8, 1, 1), (8, 2, 2), (4000, 150, 32)],
    generic_only=True,
    gnames=[_SENT, DEFAULT, B("a b"), L("g", "EN"), DEFAULT, I("")],
    note="language tags differing in case, odd blank-node labels, control characters, the IRI "
         "that rdflib uses as default-graph sentinel, a datatype that is almost xsd:string",
)


# 9. the same triple asserted in several graphs (and, as triples, immediate duplicates)
_S0, _S1 = (AX, AP, L("x")), (AX, AP, AX)
_scope(
    "samegraph",
    [_S0, _S0, _S0, _S1, _S1, _S0],
    [(8, 0, 0), (8, 1, 0), (8, 2, 0), (4000, 150, 32)],
    gnames=[DEFAULT, I("http://a/g"), B("g"), DEFAULT, I("http://a/g"), I("http://b#g")],
    note="one triple in the default graph, two named graphs and a blank-node graph: consecutive "
         "quads that differ in the graph name only",
)


def triples(scope: str) -> list:
    return SCOPES[scope]["triples"]


def quads(scope: str) -> list:
    sc = SCOPES[scope]
    return [(*t, g) for t, g in zip(sc["triples"], sc["gnames"])]


def alphabet(scope: str, arity: int) -> list:
    return triples(scope) if arity == 3 else quads(scope)


def n_sequences(n: int, maxlen: int, minlen: int = 1) -> int:
    return sum(n**k for k in range(minlen, maxlen + 1))


def seq_at(index: int, n: int, maxlen: int, minlen: int = 1) -> tuple[int, ...]:
    """The index-th sequence (shortest first) of symbols 0..n-1, lengths minlen..maxlen."""
    for k in range(minlen, maxlen + 1):
        c = n**k
        if index < c:
            out = []
            for _ in range(k):
                index, r = divmod(index, n)
                out.append(r)
            return tuple(reversed(out))
        index -= c
    raise IndexError(index)


# ------------------------------------------------------- per-statement needs
def split_iri(iri: str) -> tuple[str, str]:
    """The documented split rule: after the last '#', else after the last '/'."""
    for sep in "#/":
        i = iri.rfind(sep)
        if i >= 0:
            return iri[: i + 1], iri[i + 1 :]
    return "", iri


def needs(st, prefixes_enabled: bool) -> tuple[int, int, int]:
    """(distinct names, distinct prefixes, distinct datatypes) one statement needs."""
    names: set = set()
    pfx: set = set()
    dts: set = set()

    def walk(t):
        k = t[0]
        if k == "I":
            if prefixes_enabled:
                p, n = split_iri(t[1])
                pfx.add(p)
                names.add(n)
            else:
                names.add(t[1])
        elif k == "L":
            if t[3] and t[3] != XSD_STRING and not t[2]:
                dts.add(t[3])
        elif k == "T":
            for x in t[1:]:
                walk(x)

    for t in st:
        walk(t)
    return len(names), len(pfx), len(dts)


def fits(st, preset: tuple[int, int, int]) -> bool:
    """C01's domain: every enabled table can hold what a single statement needs."""
    names, prefixes, datatypes = preset
    n, p, d = needs(st, prefixes > 0)
    if n > names:
        return False
    if prefixes and p > prefixes:
        return False
    if d and d > datatypes:  # datatypes == 0 with typed literal: not in the domain
        return False
    return True
