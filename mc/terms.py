"""Neutral term model and converters to/from the two pyjelly integrations.

  ("I", iri)  ("B", label)  ("L", lex, lang|None, datatype|None)
  ("T", s, p, o)  ("D",)            statements are tuples of 3 or 4 terms

The only normalisation the properties allow: datatype xsd:string == plain.
"""
from __future__ import annotations

XSD_STRING = "http://www.w3.org/2001/XMLSchema#string"
DEFAULT = ("D",)


def I(s: str) -> tuple:  # noqa: E743, N802
    return ("I", s)


def B(s: str) -> tuple:  # noqa: N802
    return ("B", s)


def L(lex: str, lang: str | None = None, dt: str | None = None) -> tuple:  # noqa: N802
    return ("L", lex, lang, dt)


def T(s, p, o) -> tuple:  # noqa: N802
    return ("T", s, p, o)


def norm(t):
    """Apply the xsd:string == plain normalisation, recursively."""
    k = t[0]
    if k == "L":
        dt = t[3]
        if dt == XSD_STRING or not dt:
            dt = None
        lang = t[2] or None
        if lang:
            dt = None
        return ("L", t[1], lang, dt)
    if k == "T":
        return ("T", norm(t[1]), norm(t[2]), norm(t[3]))
    return tuple(t)


def norm_st(st) -> tuple:
    return tuple(norm(t) for t in st)


def norm_seq(seq) -> list:
    return [norm_st(s) for s in seq]


def from_json(x):
    """Neutral terms survive JSON as nested lists; turn them back into tuples."""
    if isinstance(x, list):
        return tuple(from_json(v) for v in x)
    return x


# ------------------------------------------------------------------ generic
def to_generic(t):
    from pyjelly.integrations.generic import generic_sink as gs  # noqa: PLC0415

    k = t[0]
    if k == "I":
        return gs.IRI(t[1])
    if k == "B":
        return gs.BlankNode(t[1])
    if k == "L":
        return gs.Literal(t[1], t[2], t[3])
    if k == "T":
        return gs.Triple(to_generic(t[1]), to_generic(t[2]), to_generic(t[3]))
    if k == "D":
        return gs.DefaultGraph
    if k == "X":  # deliberately unsupported object (C20)
        return object()
    raise ValueError(t)


def st_to_generic(st):
    from pyjelly.integrations.generic import generic_sink as gs  # noqa: PLC0415

    terms = [to_generic(t) for t in st]
    return gs.Triple(*terms) if len(terms) == 3 else gs.Quad(*terms)


def from_generic(o):
    from pyjelly.integrations.generic import generic_sink as gs  # noqa: PLC0415

    if isinstance(o, gs.IRI):
        return ("I", o._iri)
    if isinstance(o, gs.BlankNode):
        return ("B", o._identifier)
    if isinstance(o, gs.Literal):
        return ("L", o._lex, o._langtag, o._datatype)
    if isinstance(o, gs.Triple):
        return ("T", from_generic(o.s), from_generic(o.p), from_generic(o.o))
    if o is gs.DefaultGraph or isinstance(o, type(gs.DefaultGraph)):  # (a deep-copied singleton)
        return ("D",)
    return ("?", repr(o))


def st_from_generic(st) -> tuple:
    return tuple(from_generic(t) for t in st)


def ev_from_generic(item):
    """Flat-parser item -> neutral event."""
    from pyjelly.integrations.generic import generic_sink as gs  # noqa: PLC0415

    if isinstance(item, gs.Prefix):
        return ("ns", item.prefix, from_generic(item.iri))
    return ("st", norm_st(st_from_generic(item)))


# ------------------------------------------------------------------- rdflib
def to_rdflib(t):
    import rdflib  # noqa: PLC0415
    from rdflib.graph import DATASET_DEFAULT_GRAPH_ID  # noqa: PLC0415

    k = t[0]
    if k == "I":
        return rdflib.URIRef(t[1])
    if k == "B":
        return rdflib.BNode(t[1])
    if k == "L":
        # (rdflib refuses a literal that states both; such a term is then not a fixpoint)
        return rdflib.Literal(t[1], lang=t[2], datatype=None if t[2] else t[3])
    if k == "D":
        # a caller's own URIRef: equal to rdflib's constant, never the same object
        return rdflib.URIRef(str(DATASET_DEFAULT_GRAPH_ID))
    if k == "X":
        return object()
    raise ValueError(t)


def from_rdflib(o, graph_pos: bool = False):
    import rdflib  # noqa: PLC0415
    from rdflib.graph import DATASET_DEFAULT_GRAPH_ID  # noqa: PLC0415

    if isinstance(o, rdflib.Graph):
        o = o.identifier
        graph_pos = True
    if isinstance(o, rdflib.URIRef):
        if graph_pos and o == DATASET_DEFAULT_GRAPH_ID:
            return ("D",)  # only in graph position; elsewhere it is an ordinary IRI
        return ("I", str(o))
    if isinstance(o, rdflib.BNode):
        return ("B", str(o))
    if isinstance(o, rdflib.Literal):
        return ("L", str(o), o.language, str(o.datatype) if o.datatype else None)
    return ("?", repr(o))


def st_to_rdflib(st):
    from pyjelly.integrations.rdflib import parse as rp  # noqa: PLC0415

    terms = [to_rdflib(t) for t in st]
    return rp.Triple(*terms) if len(terms) == 3 else rp.Quad(*terms)


def st_from_rdflib(st, graph_pos_default: bool = True) -> tuple:
    out = [from_rdflib(t, graph_pos=(i == 3)) for i, t in enumerate(st)]
    return tuple(out)


def ev_from_rdflib(item):
    from pyjelly.integrations.rdflib import parse as rp  # noqa: PLC0415

    if isinstance(item, rp.Prefix):
        return ("ns", item.prefix, from_rdflib(item.iri))
    return ("st", norm_st(st_from_rdflib(item)))


_SENTINEL = "urn:x-rdflib:default"


def is_rdf11(st) -> bool:
    """Statement that the rdflib integration represents faithfully: RDF 1.1 positions
    (s IRI|BNode, p IRI, o IRI|BNode|Literal, g IRI|BNode|default), every term an rdflib
    normalisation fixpoint, and no graph named like rdflib's own default-graph sentinel."""
    if st[0][0] not in "IB" or st[1][0] != "I" or st[2][0] not in "IBL":
        return False
    if len(st) == 4 and (st[3][0] not in "IBD" or st[3] == ("I", _SENTINEL)
                         or st[3] in (("I", ""), ("B", ""))):
        return False  # (rdflib replaces an empty graph identifier by a fresh blank node)
    return all(from_rdflib(to_rdflib(t), graph_pos=(i == 3)) == tuple(t) for i, t in enumerate(st))


def rdflib_fixpoint(t) -> bool:
    """True if rdflib stores this term exactly as given (no lexical normalisation)."""
    return from_rdflib(to_rdflib(t)) == tuple(t) or norm(from_rdflib(to_rdflib(t))) == norm(t)
