"""Fork-once worker pool and result merging.

Shards are small picklable descriptors (index ranges, parameter tuples); the
worker enumerates its cases itself, so IPC stays tiny.  Results come back in
shard order, so a run is deterministic for a given tree.
"""
from __future__ import annotations

import multiprocessing as mp
import os
from collections import Counter
from typing import Any, Callable, Iterable

WORKERS = int(os.environ.get("VERIF_WORKERS", "0")) or min(16, os.cpu_count() or 1)
MAX_VIOL_PER_SHARD = 40


class Acc:
    """Accumulator a shard function fills and returns (as a dict)."""

    def __init__(self) -> None:
        self.evals = 0
        self.nontrivial = 0
        self.violations: list[dict] = []
        self.viol_total = 0
        self.samples: list[Any] = []
        self.counters: Counter = Counter()
        self.extra: dict = {}

    def violation(self, sig: dict, what: str, case: dict, detail: Any = None) -> None:
        self.viol_total += 1
        if len(self.violations) < MAX_VIOL_PER_SHARD:
            self.violations.append(
                {"sig": sig, "what": what, "case": case, "detail": detail}
            )
        else:
            # keep at least one representative per distinct signature
            key = _sigkey(sig)
            if all(_sigkey(v["sig"]) != key for v in self.violations):
                self.violations.append(
                    {"sig": sig, "what": what, "case": case, "detail": detail}
                )

    def sample(self, s: Any, cap: int = 3) -> None:
        if len(self.samples) < cap:
            self.samples.append(s)

    def out(self) -> dict:
        return {
            "evals": self.evals,
            "nontrivial": self.nontrivial,
            "violations": self.violations,
            "viol_total": self.viol_total,
            "samples": self.samples,
            "counters": dict(self.counters),
            "extra": self.extra,
        }


def _sigkey(sig: dict) -> tuple:
    return tuple(sorted((k, repr(v)) for k, v in sig.items()))


def merge(results: Iterable[dict]) -> dict:
    tot = {
        "evals": 0,
        "nontrivial": 0,
        "violations": [],
        "viol_total": 0,
        "samples": [],
        "counters": Counter(),
        "extras": [],
    }
    for r in results:
        tot["evals"] += r["evals"]
        tot["nontrivial"] += r["nontrivial"]
        tot["violations"].extend(r["violations"])
        tot["viol_total"] += r["viol_total"]
        if len(tot["samples"]) < 6:
            tot["samples"].extend(r["samples"][: 6 - len(tot["samples"])])
        tot["counters"].update(r["counters"])
        if r.get("extra"):
            tot["extras"].append(r["extra"])
    tot["counters"] = dict(tot["counters"])
    return tot


_POOL = None


def pmap(func: Callable[[Any], dict], shards: list, workers: int | None = None) -> list:
    """Map func over shards in a forked pool; results in shard order."""
    global _POOL
    workers = workers or WORKERS
    if workers <= 1 or len(shards) <= 1:
        return [func(s) for s in shards]
    ctx = mp.get_context("fork")
    with ctx.Pool(min(workers, len(shards))) as pool:
        return list(pool.imap(func, shards, chunksize=1))


def split_range(n: int, parts: int) -> list[tuple[int, int]]:
    parts = max(1, min(parts, n))
    step, rem = divmod(n, parts)
    out, lo = [], 0
    for i in range(parts):
        hi = lo + step + (1 if i < rem else 0)
        out.append((lo, hi))
        lo = hi
    return out
