"""C11 - streaming: bounded buffering on write, no read-ahead needed on parse.

Write side: the product of an instrumented input generator, the real serializer
generator and a frame consumer is stepped and observed at every pull and every
yield, for every scope sequence x frame size x entry point.
Read side: for every base stream and every frame boundary j, a source that has
delivered exactly frames 1..j and would block forever on one more byte.
"""
from __future__ import annotations

import io

from mc import alphabets as AL
from mc import corpus, drivers as DR, faultio, jwire, pool
from mc import terms as T
from mc.checks.c10 import consume_flat

LEVEL = "model_checking"
SCOPE = "prefix"
W_ENTRIES = ("flat_to_frames", "stream_frames", "flat_to_file_raw")


OPT_MODES = ("plain", "explicit-flow", "derived", "mutated", "bounded-unspecified")


def make_opts(api: str, cls: str, preset, frame_size: int, mode: str):
    """SerializerOptions asking for `frame_size`, arrived at in different legal ways."""
    if mode == "plain":
        return DR.make_options(cls, preset, frame_size, True)
    if mode == "explicit-flow":
        # the caller builds the flow object itself; options.frame_size keeps its default
        from pyjelly.serialize import flows  # noqa: PLC0415

        opts = DR.make_options(cls, preset, 250, True)
        fcls = flows.FlatTriplesFrameFlow if cls == "triple" else flows.FlatQuadsFrameFlow
        opts.flow = fcls(frame_size=frame_size)
        return opts
    if mode == "bounded-unspecified":
        # no logical type stated at all; the frame size comes with a plain BoundedFrameFlow
        from pyjelly.serialize import flows  # noqa: PLC0415

        opts = DR.make_options(cls, preset, 250, True, 0)
        opts.flow = flows.BoundedFrameFlow(frame_size=frame_size)
        return opts
    # the options object configured an earlier (bulk) stream before this one
    import dataclasses  # noqa: PLC0415

    opts0 = DR.make_options(cls, preset, 1000, True)
    first = DR.g_stream(cls, opts0) if api == "generic" else DR.r_stream(cls, opts0)
    first.enroll()
    first.flow.to_stream_frame()
    if mode == "derived":
        return dataclasses.replace(opts0, frame_size=frame_size)
    opts0.frame_size = frame_size
    return opts0


# --------------------------------------------------------------- write side
class LoggingIterator:
    """An iterator that is not a generator object (a class with __next__)."""

    def __init__(self, stmts, log) -> None:
        self.stmts, self.log, self.i = stmts, log, 0

    def __iter__(self):
        return self

    def __next__(self):
        if self.i >= len(self.stmts):
            raise StopIteration
        self.i += 1
        self.log.append(("pull", self.i))
        return self.stmts[self.i - 1]


SRC_KINDS = ("generator", "iterator", "map")


def observe_write(api: str, cls: str, entry: str, seq, frame_size: int, preset,
                  mode: str = "plain", src_kind: str = "generator"):
    """Run the pipeline; return (event log, frames as jwire dicts)."""
    log: list = []
    conv = T.st_to_generic if api == "generic" else T.st_to_rdflib
    stmts = [conv(s) for s in seq]

    def source():
        for i, s in enumerate(stmts):
            log.append(("pull", i + 1))
            yield s

    if src_kind != "generator":
        gen_source = source

        def source():  # noqa: F811
            if src_kind == "iterator":
                return LoggingIterator(stmts, log)
            return map(lambda x: x, gen_source())  # a lazy iterator, but not a generator object

    opts = make_opts(api, cls, preset, frame_size, mode)
    if api == "generic":
        from pyjelly.integrations.generic import serialize as ser  # noqa: PLC0415

        stream = DR.g_stream(cls, opts)
    else:
        from pyjelly.integrations.rdflib import serialize as ser  # noqa: PLC0415

        stream = DR.r_stream(cls, opts)
    if entry == "flat_to_frames":
        gen = ser.flat_stream_to_frames(source(), opts)
    elif entry == "stream_frames":
        gen = ser.stream_frames(stream, source())
    else:  # GraphStream.graph driven with an instrumented triple iterator
        stream.enroll()

        def triples():
            for i, s in enumerate(stmts):
                log.append(("pull", i + 1))
                yield s[:3]

        g = stmts[0][3] if stmts else None
        gen = stream.graph(g, triples())
    frames = []
    for fr in gen:
        raw = fr.SerializeToString(deterministic=True)
        d = jwire.dec_frame(raw)
        frames.append(d)
        log.append(("frame", len(frames), len(d["rows"])))
    if entry == "graph":
        last = stream.flow.to_stream_frame()
        if last is not None:
            d = jwire.dec_frame(last.SerializeToString(deterministic=True))
            frames.append(d)
            log.append(("final", len(frames), len(d["rows"])))
    return log, frames


class RecordingRaw(io.RawIOBase):
    """Unbuffered output (a pipe/socket opened with buffering=0) that logs every write."""

    def __init__(self, log: list) -> None:
        super().__init__()
        self.log = log
        self.buf = bytearray()

    def writable(self) -> bool:
        return True

    def write(self, b) -> int:
        self.buf += bytes(b)
        self.log.append(("write", len(self.buf)))
        return len(b)


def observe_to_file(api: str, cls: str, seq, frame_size: int, preset, grouped: bool):
    """flat/grouped_stream_to_file into an unbuffered raw output; -> (log, bytes)."""
    log: list = []
    conv = T.st_to_generic if api == "generic" else T.st_to_rdflib
    stmts = [conv(s) for s in seq]

    def source():
        for i, s in enumerate(stmts):
            log.append(("pull", i + 1))
            yield s

    opts = DR.make_options(cls, preset, frame_size, True)
    out = RecordingRaw(log)
    if api == "generic":
        from pyjelly.integrations.generic import serialize as ser  # noqa: PLC0415
    else:
        from pyjelly.integrations.rdflib import serialize as ser  # noqa: PLC0415
    ser.flat_stream_to_file(source(), out, opts)
    return log, bytes(out.buf)


def judge_to_file(log, data: bytes, n: int) -> list[tuple[str, str]]:
    """Every frame but the last must have reached the output before the statement after the one
    that completed it is requested."""
    frames = jwire.read_delimited(data)
    offs = jwire.frame_offsets(data)
    done = 0
    due = []  # (statement index that completed the frame, end offset)
    for f, (_, end) in zip(frames, offs):
        done += sum(1 for r in f["rows"] if r["kind"] in ("triple", "quad"))
        due.append((done, end))
    if done != n:
        return [("lost", f"{done} statements in the output for {n} given")]
    written = 0
    fails = []
    for ev in log:
        if ev[0] == "write":
            written = ev[1]
        else:
            k = ev[1]
            for j, end in due[:-1]:
                if j < k and written < end:
                    fails.append(("held-back", f"when statement {k} was requested only {written} "
                                               f"bytes had reached the output, the frame completed "
                                               f"by statement {j} ends at byte {end}"))
                    return fails
    return fails


def judge_write(log, frames, n: int, frame_size: int) -> list[tuple[str, str]]:
    fails: list[tuple[str, str]] = []
    rows = [r for f in frames for r in f["rows"]]
    st_rows = [i for i, r in enumerate(rows) if r["kind"] in ("triple", "quad")]
    if len(st_rows) != n:
        return [("lost", f"{len(st_rows)} statement rows written for {n} statements")]
    # row index at which every frame ends (exclusive)
    ends = []
    tot = 0
    for f in frames:
        tot += len(f["rows"])
        ends.append(tot)
    handed = 0
    pulls = 0
    nframes = 0
    for ev in log:
        if ev[0] == "pull":
            k = ev[1]
            pulls = k
            if k >= 2:
                produced = st_rows[k - 2] + 1
                pending = produced - handed
                if pending >= frame_size:
                    fails.append(("pending", f"{pending} rows pending (frame_size {frame_size}) "
                                             f"when statement {k} is requested"))
        elif ev[0] == "frame":
            nframes += 1
            handed = ends[nframes - 1]
            # the statement that completed this frame: last statement row inside it
            inside = [j for j, ri in enumerate(st_rows) if ri < handed]
            completed_by = (inside[-1] + 1) if inside else 0
            if pulls > max(completed_by, 1):
                fails.append(("overconsumed", f"frame {nframes} (completed by statement "
                                              f"{completed_by}) handed over only after statement "
                                              f"{pulls} was consumed"))
    return fails


def star_statement(k: int) -> tuple:
    """Statement number k of a stream of quoted triples in which every IRI is new: 7 prefix
    entries + 7 name entries + the statement row = 15 rows for one statement."""
    def iri(j: int):
        return T.I(f"http://h{k}x{j}/n{k}x{j}")

    return (T.T(iri(0), iri(1), iri(2)), iri(3), T.T(iri(4), iri(5), iri(6)))


STAR_PRESET = (16, 8, 0)
STAR_FRAME_SIZES = (10, 12, 15, 16, 19, 20, 31)


def run_write_case(case: dict) -> list[tuple[str, str]]:
    cls = case["cls"]
    if case.get("large"):
        seq = [(T.I(f"http://a/s{i}"), T.I("http://a/p"), T.L(str(i))) for i in range(1700)]
        log, frames = observe_write(case["api"], "triple", case["entry"], seq, case["frame_size"],
                                    (4000, 150, 32))
        return judge_write(log, frames, len(seq), case["frame_size"])
    if case.get("star"):
        seq = [star_statement(k) for k in range(case["star"])]
        log, frames = observe_write("generic", "triple", case["entry"], seq, case["frame_size"],
                                    STAR_PRESET, "plain", case.get("src", "generator"))
        return judge_write(log, frames, len(seq), case["frame_size"])
    alpha = AL.alphabet(SCOPE, 3 if cls == "triple" else 4)
    seq = [alpha[i] for i in case["seq"]]
    if case["entry"] == "flat_to_file_raw":
        log, data = observe_to_file(case["api"], cls, seq, case["frame_size"],
                                    tuple(case["preset"]), False)
        return judge_to_file(log, data, len(seq))
    if case["entry"] == "graph":
        g = seq[0][3]
        seq = [(*s[:3], g) for s in seq]
    log, frames = observe_write(case["api"], cls, case["entry"], seq, case["frame_size"],
                                tuple(case["preset"]), case.get("opts", "plain"),
                                case.get("src", "generator"))
    return judge_write(log, frames, len(seq), case["frame_size"])


def write_shard(job) -> dict:
    api, cls, entry, L, lo, hi = job
    acc = pool.Acc()
    preset = (8, 4, 0)
    states: set = set()
    steps = 0
    alpha = AL.alphabet(SCOPE, 3 if cls == "triple" else 4)
    for idx in range(lo, hi):
        sym = AL.seq_at(idx, 6, L)
        if api == "rdflib" and not all(T.is_rdf11(alpha[i]) for i in sym):
            continue
        combos = [(f, m, "generator") for m in OPT_MODES for f in (1, 2, 3, 4, 5, 6, 7, 8)]
        combos += [(f, "plain", k) for k in SRC_KINDS[1:] for f in (1, 2, 3, 5)]
        for fs, mode, src_kind in combos:
            if mode != "plain" and entry == "flat_to_file_raw":
                continue
            if src_kind != "generator" and entry in ("flat_to_file_raw", "graph"):
                continue
            case = {"side": "write", "api": api, "cls": cls, "entry": entry, "seq": list(sym),
                    "frame_size": fs, "preset": list(preset), "opts": mode, "src": src_kind}
            acc.evals += 1
            if len(sym) >= 2:
                acc.nontrivial += 1
            try:
                cls_ = case["cls"]
                seq = [alpha[i] for i in sym]
                if entry == "graph":
                    g = seq[0][3]
                    seq = [(*s[:3], g) for s in seq]
                if entry == "flat_to_file_raw":
                    log, data = observe_to_file(api, cls_, seq, fs, preset, False)
                    fails = judge_to_file(log, data, len(seq))
                    log = [e for e in log if e[0] == "pull"] + [("frame", 0, 0)] * len(
                        jwire.frame_offsets(data))
                else:
                    log, frames = observe_write(api, cls_, entry, seq, fs, preset, mode, src_kind)
                    fails = judge_write(log, frames, len(seq), fs)
            except Exception as e:  # noqa: BLE001
                fails = [("raised", f"{type(e).__name__}: {e}")]
                log = []
            steps += len(log)
            pulls = handed = 0
            for ev in log:
                if ev[0] == "pull":
                    pulls = ev[1]
                else:
                    handed += ev[2]
                states.add((fs, pulls, handed))
            for kind, msg in fails:
                acc.violation({"side": "write", "fail": kind, "entry": entry, "api": api},
                              f"{msg} case={case}", case)
    acc.extra = {"states": sorted(states), "steps": steps}
    acc.sample({"side": "write", "api": api, "cls": cls, "entry": entry, "first_seq": lo}, cap=1)
    return acc.out()


# ---------------------------------------------------------------- read side
def read_sources(data: bytes, limit: int):
    yield "raw", faultio.StallRaw(data, limit)
    yield "raw-chunk5", faultio.StallRaw(data, limit, chunk=5)
    yield "raw-chunk1", faultio.StallRaw(data, limit, chunk=1)
    yield "raw-chunk2", faultio.StallRaw(data, limit, chunk=2)
    yield "buffered-chunk1", io.BufferedReader(faultio.StallRaw(data, limit, chunk=1))
    yield "buffered-chunk2", io.BufferedReader(faultio.StallRaw(data, limit, chunk=2))
    yield "buffered", io.BufferedReader(faultio.StallRaw(data, limit))
    yield "buffered-chunk5", io.BufferedReader(faultio.StallRaw(data, limit, chunk=5))
    yield "seekable-buffered", io.BufferedReader(faultio.StallRaw(data, limit, seekable=True))
    yield "rwpair", io.BufferedRWPair(faultio.StallRaw(data, limit), faultio.NullRawWriter())
    yield "custom-buffered", faultio.PlainBuffered(faultio.StallRaw(data, limit, chunk=5))


def consume_grouped_meta(api: str, src):
    """Grouped parser with a frame_metadata variable supplied; statements sink by sink."""
    import contextvars  # noqa: PLC0415

    from mc import drivers as DR  # noqa: PLC0415

    var: contextvars.ContextVar = contextvars.ContextVar("frame_metadata")
    out: list = []
    try:
        if api == "generic":
            from pyjelly.integrations.generic import parse as gp  # noqa: PLC0415

            for sink in gp.parse_jelly_grouped(src, frame_metadata=var):
                out += [("ns", p, T.from_generic(i)) for p, i in sink.namespaces]
                out += [("st", T.norm_st(T.st_from_generic(s))) for s in sink]
        else:
            from pyjelly.integrations.rdflib import parse as rp  # noqa: PLC0415

            for g in rp.parse_jelly_grouped(src, frame_metadata=var):
                out += DR._graph_events(g)
    except Exception as e:  # noqa: BLE001
        return out, type(e).__name__
    return out, None


def consume_flat_frames(api: str, src):
    """The two-step call: get_options_and_frames(), then the flat parser fed with its result."""
    from pyjelly.parse.ioutils import get_options_and_frames  # noqa: PLC0415

    if api == "generic":
        from pyjelly.integrations.generic.parse import parse_jelly_flat  # noqa: PLC0415

        conv = T.ev_from_generic
    else:
        from pyjelly.integrations.rdflib.parse import parse_jelly_flat  # noqa: PLC0415

        conv = T.ev_from_rdflib
    out: list = []
    try:
        options, frames = get_options_and_frames(src)
        for item in parse_jelly_flat(src, frames=frames, options=options):
            out.append(conv(item))
    except Exception as e:  # noqa: BLE001
        return out, type(e).__name__
    return out, None


def run_read_case(case: dict) -> str | None:
    entry = next(e for e in corpus.base_streams(case["corpus"]) if e["name"] == case["stream"])
    j = case["frames_delivered"]
    limit = entry["offsets"][j - 1][1]
    src = dict(read_sources(entry["data"], limit))[case["source"]]
    want = [e for evs in entry["per_frame"][:j] for e in evs]
    if case.get("reader") == "grouped-meta":
        got, exc = consume_grouped_meta(case["api"], src)
        gs = [e for e in got if e[0] == "st"]
        ws = [e for e in want if e[0] == "st"]
        missing = [e for e in ws if e not in gs]
        if missing:
            return (f"after frames 1..{j} ({limit} bytes) had arrived the grouped parser (with a "
                    f"frame_metadata variable) had yielded {len(gs)} of their {len(ws)} statements "
                    f"before asking for more input ({exc})")
        return None
    fn = consume_flat_frames if case.get("reader") == "flat-frames" else consume_flat
    got, exc = fn(case["api"], src)
    if got[: len(want)] != want:
        return (f"after frames 1..{j} ({limit} bytes) had arrived only {len(got)} of their "
                f"{len(want)} items were yielded before the parser asked for more input "
                f"({exc})")
    return None


def read_shard(job) -> dict:
    size, idx = job
    entry = corpus.base_streams(size)[idx]
    acc = pool.Acc()
    for j in range(1, len(entry["offsets"]) + 1):
        for api in ("generic", "rdflib"):
            if api == "rdflib" and not entry["rdf11"]:
                continue
            for sname, _ in read_sources(b"", 0):
                for reader in ("flat", "grouped-meta", "flat-frames") if sname in (
                        "raw", "raw-chunk5", "buffered") else ("flat",):
                    case = {"side": "read", "corpus": size, "stream": entry["name"],
                            "frames_delivered": j, "source": sname, "api": api, "reader": reader}
                    acc.evals += 1
                    if j < len(entry["offsets"]):
                        acc.nontrivial += 1
                    r = run_read_case(case)
                    if r:
                        acc.violation({"side": "read", "source": sname.split("-")[0],
                                       "reader": reader},
                                      f"{entry['name']} via {sname} ({api}): {r}", case)
    acc.sample({"side": "read", "stream": entry["name"], "frames": len(entry["offsets"])}, cap=1)
    return acc.out()


def star_shard(job) -> dict:
    acc = pool.Acc()
    for entry in ("flat_to_frames", "stream_frames"):
        for n in (2, 3, 4, 5):
            for fs in STAR_FRAME_SIZES:
                for src_kind in SRC_KINDS:
                    case = {"side": "write", "api": "generic", "cls": "triple", "entry": entry,
                            "star": n, "frame_size": fs, "src": src_kind}
                    acc.evals += 1
                    acc.nontrivial += 1
                    try:
                        fails = run_write_case(case)
                    except Exception as e:  # noqa: BLE001
                        fails = [("raised", f"{type(e).__name__}: {e}")]
                    for kind, msg in fails:
                        acc.violation({"side": "write", "fail": kind, "entry": entry,
                                       "api": "generic", "star": True}, f"{msg} case={case}", case)
    acc.extra = {"states": [], "steps": 0}
    return acc.out()


def large_shard(job) -> dict:
    """Frame sizes in the thousands (any per-call shortcut that only looks at the size now and
    then shows up here): 1700 statements with fresh subjects, two to three rows each."""
    acc = pool.Acc()
    seq = [(T.I(f"http://a/s{i}"), T.I("http://a/p"), T.L(str(i))) for i in range(1700)]
    for api in ("generic", "rdflib"):
        for entry in ("flat_to_frames", "stream_frames"):
            for fs in (1000, 1024, 1500, 2048):
                case = {"side": "write", "api": api, "cls": "triple", "entry": entry,
                        "large": True, "frame_size": fs}
                acc.evals += 1
                acc.nontrivial += 1
                try:
                    log, frames = observe_write(api, "triple", entry, seq, fs, (4000, 150, 32))
                    fails = judge_write(log, frames, len(seq), fs)
                except Exception as e:  # noqa: BLE001
                    fails = [("raised", f"{type(e).__name__}: {e}")]
                for kind, msg in fails[:3]:
                    acc.violation({"side": "write", "fail": kind, "entry": entry, "api": api,
                                   "large": True}, f"{msg} case={case}", case)
    acc.extra = {"states": [], "steps": 0}
    return acc.out()


def _dispatch(job) -> dict:
    if job[0] == "large":
        return large_shard(job)
    if job[0] == "star":
        return star_shard(job)
    return write_shard(job[1]) if job[0] == "w" else read_shard(job[1])


def run(ctx) -> None:
    L = 3 if ctx.quick else 5
    size = "small" if ctx.quick else "full"
    n = AL.n_sequences(6, L)
    jobs = []
    for api in ("generic", "rdflib"):
        for cls, entries in (("triple", W_ENTRIES), ("quad", W_ENTRIES), ("graph", ("graph",))):
            for entry in entries:
                for lo, hi in pool.split_range(n, 2 if ctx.quick else 8):
                    jobs.append(("w", (api, cls, entry, L, lo, hi)))
    jobs.append(("star",))
    jobs.append(("large",))
    rjobs = [("r", (size, i)) for i in range(len(corpus.base_streams(size)))]
    merged = pool.merge(pool.pmap(_dispatch, jobs + rjobs))
    ctx.add(merged)
    states = {tuple(s) for e in merged["extras"] for s in e.get("states", ())}
    steps = sum(e.get("steps", 0) for e in merged["extras"])
    ctx.coverage.update(
        states=len(states),
        transitions=steps,
        traces_validated_against_impl=merged["evals"],
        evaluations=merged["evals"],
        distinct_nontrivial=merged["nontrivial"],
        exhaustive=True,
        samples=merged["samples"],
        rule=(
            f"write: every sequence of length<={L} over the 'prefix' scope x frame_size 1..8 x "
            "{flat_stream_to_frames, stream_frames, flat_stream_to_file into an unbuffered raw "
            "output that logs every write} x {Triple,Quad}Stream and GraphStream.graph() x the "
            "frame size given {through the options, through an explicit flow object, through an "
            "options object derived (dataclasses.replace) or mutated after it configured a bulk "
            "stream} x the input given as {generator, iterator object, map object}; statements of "
            "quoted triples that take 15 rows each with frame sizes 10..31; "
            "x {generic, rdflib}; states = distinct (frame_size, pulls, rows handed out) "
            "observations, transitions = generator steps (pulls and yields) observed; read: every "
            "base stream x every frame boundary j x {raw, buffered (socket.makefile shape), "
            "seekable} sources that stall after frame j"
        ),
    )


def replay(case: dict) -> list:
    if case["side"] == "write":
        return [m for _, m in run_write_case(case)]
    r = run_read_case(case)
    return [r] if r else []
