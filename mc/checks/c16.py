"""C16 - spec-violating streams are rejected, never turned into fabricated data.

Base valid streams x every row position x every catalogued violation class
applicable there.  A mutant counts only if the reference decoder rejects it at
that row.  Every pyjelly parser must raise, having yielded nothing but the
decoding of the rows before the offending one.
"""
from __future__ import annotations

import copy
import io

from mc import alphabets as AL
from mc import drivers as DR
from mc import jspec, jwire, pool
from mc import terms as T
from mc.checks.c10 import consume_flat, consume_grouped
from mc.env import HarnessError

LEVEL = "fault_enumeration"
PT = {"triple": 1, "quad": 2, "graph": 3}
TR = {"s": ("bnode", "zs"), "p": ("bnode", "zp"), "o": ("bnode", "zo")}


def bases(size: str) -> list[dict]:
    out = []
    scopes = ("prefix", "datatype", "quoted", "repeat", "literal") if size == "full" else \
        ("prefix", "datatype", "quoted")
    for scope in scopes:
        for cls in DR.CLASSES:
            for preset, fs in (((8, 2, 0), 3), ((9, 3, 2), 3), ((8, 0, 1), 1)):
                if size != "full" and fs == 1:
                    continue
                alpha = [s for s in AL.alphabet(scope, 3 if cls == "triple" else 4)
                         if AL.fits(s, preset)]
                if len(alpha) < 2:
                    continue
                seq = alpha[:3]
                data = DR.g_write(seq, cls, DR.make_options(cls, preset, fs, True))
                frames = jwire.read_delimited(data)
                out.append({"name": f"{scope}/{cls}/{preset}/fs{fs}", "cls": cls, "preset": preset,
                            "frames": [f["rows"] for f in frames],
                            "rdf11": all(T.is_rdf11(s) for s in seq)})
    # big, not-a-power-of-two tables filled beyond 128 entries (prefix table 150, 140 used)
    from mc.terms import I, L  # noqa: PLC0415

    for cls in ("triple", "quad"):
        seq = []
        for i in range(140):
            st = (I(f"http://p{i}.example/n{i}"), I(f"http://p{i}.example/p"),
                  L(str(i), None, f"http://d/{i % 20}"))
            seq.append(st if cls == "triple" else (*st, I(f"http://p{i}.example/g")))
        preset = (4000, 150, 32)
        data = DR.g_write(seq, cls, DR.make_options(cls, preset, 100, True))
        frames = jwire.read_delimited(data)
        out.append({"name": f"big150/{cls}", "cls": cls, "preset": preset,
                    "frames": [f["rows"] for f in frames], "rdf11": True, "big": True})
    return out


def flat_rows(base) -> list[tuple[int, int, dict]]:
    return [(fi, ri, r) for fi, rows in enumerate(base["frames"]) for ri, r in enumerate(rows)]


def _set_ref(term, which: str, value: int):
    """Return a copy of an IRI/literal term with one id replaced; None if not applicable."""
    if term[0] == "iri":
        if which == "prefix":
            return ("iri", value, term[2])
        if which == "name":
            return ("iri", term[1], value)
    if term[0] == "literal" and which == "datatype" and term[2] is None:
        return ("literal", term[1], None, value)
    return None


def filled_before(base, pos: int) -> dict:
    """Slots of each table that hold an entry when flat row `pos` is reached."""
    d = jspec.Decoder()
    for _, _, r in flat_rows(base)[:pos]:
        d.row(r)
    if d.names is None:
        return {"name": set(), "prefix": set(), "datatype": set()}
    return {"name": set(d.names.slots), "prefix": set(d.prefixes.slots),
            "datatype": set(d.datatypes.slots)}


def mutants_at(base, pos: int):
    """Yield (class label, new frames) for every violation injectable at flat row `pos`."""
    rows = flat_rows(base)
    fi, ri, row = rows[pos]
    names, pf, dt = base["preset"]
    sizes = {"name": names, "prefix": pf, "datatype": dt}
    kind = row["kind"]
    pt = PT[base["cls"]]

    def replace(new_row):
        fr = [list(f) for f in base["frames"]]
        fr[fi][ri] = new_row
        return fr

    def insert(new_rows):
        fr = [list(f) for f in base["frames"]]
        fr[fi][ri:ri] = new_rows
        return fr

    def drop():
        fr = [list(f) for f in base["frames"]]
        del fr[fi][ri]
        return fr

    if kind == "options":
        yield "options-missing", drop()
        if len(base["frames"]) > 1:
            # ... although a later frame opens with an options row
            for k in range(1, min(len(base["frames"]), 3)):
                fr = drop()
                fr[k] = [row, *fr[k]]
                yield "options-missing-but-sent-later", fr
        for v in (3, 99):
            yield f"version-{v}", replace(jwire.mkrow("options", {**row["v"], "version": v}))
        for p in (0, 7):
            yield f"physical-type-{p}", replace(jwire.mkrow("options",
                                                            {**row["v"], "physical_type": p}))
        return
    if kind in ("name", "prefix", "datatype"):
        size = sizes[kind]
        yield f"{kind}-entry-id-beyond-size", replace(
            jwire.mkrow(kind, {"id": size + 1, "value": row["v"]["value"]}))
        yield f"{kind}-entry-id-zero-form-beyond-size", insert(
            [jwire.mkrow(kind, {"id": size, "value": "zz"}),
             jwire.mkrow(kind, {"id": 0, "value": "zz2"})])
    # an additional entry beyond the declared size, the rest of the stream stays as it is
    if kind in ("triple", "quad", "name", "prefix", "datatype", "graph_start"):
        for tk in ("name", "prefix", "datatype"):
            if sizes[tk]:
                yield f"{tk}-extra-entry-beyond-size", insert(
                    [jwire.mkrow(tk, {"id": sizes[tk] + 1, "value": "zz"})])
    # a later options row that declares something this reader does not support
    if kind in ("triple", "quad", "graph_start") and pos > 0:
        first = rows[0][2]
        if first["kind"] == "options":
            zeroed = [("later-options-zeroed-" + f.replace("max_", "").replace("_size", ""),
                       {f: 0}) for f in ("physical_type", "max_name_table_size",
                                         "max_prefix_table_size", "max_datatype_table_size")
                      if first["v"].get(f)]
            for label, change in [("later-options-version-99", {"version": 99}),
                                  ("later-options-physical-type", {"physical_type": pt % 3 + 1}),
                                  *zeroed]:
                yield label, insert([jwire.mkrow("options", {**first["v"], **change})])
    # rows of a forbidden kind inserted here
    forbidden = {1: ("quad", "graph_start", "graph_end"), 2: ("triple", "graph_start", "graph_end"),
                 3: ("quad",)}[pt]
    for k in forbidden:
        payload = {"quad": {**TR, "g": ("default",)}, "triple": TR,
                   "graph_start": {"g": ("default",)}, "graph_end": {}}[k]
        yield f"forbidden-row-{k}", insert([jwire.mkrow(k, payload)])
    if pf == 0 and kind in ("triple", "quad"):
        yield "prefix-entry-table-disabled", insert([jwire.mkrow("prefix", {"id": 1, "value": "p"})])
    if dt == 0 and kind in ("triple", "quad"):
        yield "datatype-entry-table-disabled", insert(
            [jwire.mkrow("datatype", {"id": 1, "value": "d"})])
        yield "datatype-ref-table-disabled", insert([jwire.mkrow(
            "triple" if pt != 2 else "quad",
            {**TR, "o": ("literal", "x", None, 1), **({"g": ("default",)} if pt == 2 else {})})])
    if kind in ("triple", "quad"):
        v = row["v"]
        # the zero form of a name reference ("the slot after the one used last") right after the
        # last slot of the table has been used: it denotes slot size + 1, which does not exist
        pairs = [(a, b) for a, b in (("s", "p"), ("p", "o"), ("s", "o"), ("o", "g"), ("p", "g"))
                 if a in v and b in v and v[a][0] == "iri" and v[b][0] == "iri"
                 and not any(c in v and v[c][0] in ("iri", "triple")
                             for c in ("s", "p", "o", "g")[("s", "p", "o", "g").index(a) + 1:
                                                           ("s", "p", "o", "g").index(b)])]
        for a, b in pairs[:2]:
            fr = replace(jwire.mkrow(kind, {**v, a: _set_ref(v[a], "name", sizes["name"]),
                                            b: _set_ref(v[b], "name", 0)}))
            fr[fi][ri:ri] = [jwire.mkrow("name", {"id": sizes["name"], "value": "zz"})]
            yield "name-ref-zero-form-beyond-size", fr
        for slot in ("s", "p", "o", "g"):
            if slot not in v:
                continue
            t = v[slot]
            for which in ("prefix", "name", "datatype"):
                size = sizes[which]
                for label, val in (("beyond-size", size + 1), ("unfilled", size),
                                   ("zero", 0)):
                    if which != "datatype" and label == "zero":
                        continue
                    if which == "prefix" and size == 0 and label != "beyond-size":
                        continue
                    if which == "datatype" and size == 0 and label != "beyond-size":
                        continue
                    nt = _set_ref(t, which, val)
                    if nt is not None:
                        yield f"{which}-ref-{label}", replace(jwire.mkrow(kind, {**v, slot: nt}))
            # a name id far beyond any table: 4096 * j + k, for names k that are in use
            filled_now = filled_before(base, pos)
            for k in sorted(filled_now["name"])[:3]:
                for j in (1, 2):
                    nt = _set_ref(t, "name", 4096 * j + k)
                    if nt is not None:
                        yield "name-ref-far-beyond", replace(jwire.mkrow(kind, {**v, slot: nt}))
            # a reference into a gap: an entry with an explicit id two beyond the filled part
            # is sent first, then the slot in between (never filled) is referenced
            filled = filled_before(base, pos)
            for which in ("prefix", "name", "datatype"):
                gap = next((g for g in range(1, sizes[which]) if g not in filled[which]
                            and g + 1 not in filled[which]), None)
                nt = _set_ref(t, which, gap) if gap else None
                if nt is not None:
                    fr = replace(jwire.mkrow(kind, {**v, slot: nt}))
                    fr[fi][ri:ri] = [jwire.mkrow(which, {"id": gap + 1, "value": "zz"})]
                    yield f"{which}-ref-gap-unfilled", fr
            if t[0] == "triple":
                inner = dict(t[1])
                for q in ("s", "p", "o"):
                    cut = {k: x for k, x in inner.items() if k != q}
                    yield "repeat-inside-quoted", replace(
                        jwire.mkrow(kind, {**v, slot: ("triple", cut)}))
        # repeated-term marker with no previous term: only meaningful for the first statement
        first_stmt = not any(r["kind"] in ("triple", "quad") for _, _, r in rows[:pos])
        if first_stmt:
            for slot in v:
                yield f"repeat-without-previous-{slot}", replace(
                    jwire.mkrow(kind, {k: x for k, x in v.items() if k != slot}))
    if pt == 3:
        if kind == "graph_start":
            # a complete triple before this graph start (outside any graph)
            yield "triple-outside-graph", insert([jwire.mkrow("triple", TR)])
            yield "graph-start-without-name", replace(jwire.mkrow("graph_start", {}))
        if kind == "graph_end":
            fr = [list(f) for f in base["frames"]]
            fr[fi][ri + 1:ri + 1] = [jwire.mkrow("triple", TR)]
            yield "triple-after-graph-end", fr
            # the graph is started once more before it ends (a producer may do that), then a
            # triple follows the single graph end
            fr2 = [list(f) for f in base["frames"]]
            fr2[fi][ri:ri] = [jwire.mkrow("graph_start", {"g": ("bnode", "again")})]
            fr2[fi][ri + 2:ri + 2] = [jwire.mkrow("triple", TR)]
            yield "triple-after-restarted-graph-end", fr2


def offending(frames) -> tuple[str, int, int] | None:
    try:
        jspec.decode_frames([{"rows": f, "metadata": {}} for f in frames], finish=False)
    except jspec.SpecViolation as e:
        return e.rule, e.frame, e.row
    return None


def expected_before(frames, fi: int, ri: int) -> list:
    d = jspec.Decoder()
    out = []
    for i, f in enumerate(frames):
        for j, r in enumerate(f):
            if (i, j) == (fi, ri):
                return out
            d.fi, d.ri = i, j
            out += [("st", T.norm_st(e[1])) if e[0] == "st" else e for e in d.row(r)
                    if e[0] != "opt"]
    return out


def judge_mutant(base, frames, label: str) -> list[tuple[str, str]] | None:
    """None: not a counted mutant (reference decoder accepts it)."""
    off = offending(frames)
    if off is None:
        return None
    rule, fi, ri = off
    data = jwire.write_delimited([jwire.enc_frame(f) for f in frames])
    before = expected_before(frames, fi, ri)
    fails = []
    for api in ("generic", "rdflib"):
        if api == "rdflib" and not base["rdf11"]:
            continue
        got, exc = consume_flat(api, io.BytesIO(data))
        if exc is None:
            fails.append((f"accepted-{api}-flat",
                          f"{label} ({rule} at frame {fi} row {ri}) accepted by {api} flat parser, "
                          f"which returned {got[len(before):][:2]} for the offending part"))
        elif got != before[: len(got)]:
            fails.append((f"fabricated-{api}-flat",
                          f"{label}: {api} flat parser yielded {got} before raising {exc}; rows "
                          f"before the offending one denote {before}"))
        gg, gexc = consume_grouped(api, io.BytesIO(data))
        if gexc is None:
            fails.append((f"accepted-{api}-grouped", f"{label} ({rule}) accepted by {api} grouped "
                                                     "parser"))
        try:
            (DR.g_read if api == "generic" else DR.r_read)(data, "to_graph")
            fails.append((f"accepted-{api}-to_graph", f"{label} ({rule}) accepted by {api} "
                                                      "parse-to-graph"))
        except Exception:  # noqa: BLE001
            pass
    return fails


def shard(job) -> dict:
    size, idx = job
    base = bases(size)[idx]
    acc = pool.Acc()
    rows = flat_rows(base)
    positions = range(len(rows))
    if base.get("big"):
        # long stream: inject at the first rows and at the last rows (tables are full there)
        positions = list(range(6)) + list(range(len(rows) - 8, len(rows)))
    for pos in positions:
        for label, frames in mutants_at(base, pos):
            r = judge_mutant(base, frames, label)
            if r is None:
                acc.counters["not_counted_valid"] += 1
                continue
            acc.evals += 1
            acc.nontrivial += 1
            acc.counters["class:" + label.split("-previous-")[0]] += 1
            for kind, msg in r:
                acc.violation({"class": label, "fail": kind.split("-")[0]},
                              f"{base['name']} row {pos}: {msg}",
                              {"size": size, "base": base["name"], "pos": pos, "label": label})
    acc.sample({"base": base["name"], "rows": len(rows)}, cap=1)
    return acc.out()


def optimised_process() -> list[dict]:
    """Every mutant of the small base streams once more in an interpreter started with
    PYTHONOPTIMIZE=1 (python -O):
    rejecting a stream must not hinge on `assert` statements, which that mode removes."""
    import json  # noqa: PLC0415
    import os  # noqa: PLC0415
    import subprocess  # noqa: PLC0415
    import sys  # noqa: PLC0415

    from mc import env  # noqa: PLC0415

    envp = dict(os.environ)
    envp["PYTHONOPTIMIZE"] = "1"
    envp["VERIF_C16_OPT"] = "1"
    r = subprocess.run([sys.executable, "-B", "-W", "ignore", "-m", "mc.checks.c16"],
                       capture_output=True, text=True, env=envp, cwd=env.VERIF, check=False)
    if r.returncode != 0:
        raise HarnessError(f"optimised subprocess failed: {r.stderr[-800:]}")
    out = json.loads(r.stdout.strip().splitlines()[-1])
    if out["optimize"] < 1:
        raise HarnessError("the subprocess did not run in optimised mode")
    return out["results"]


def header_mutants_in_this_process() -> dict:
    import sys  # noqa: PLC0415

    results = []
    n = 0
    for base in bases("full"):
        if base.get("big"):
            continue
        for pos, (_, _, row) in enumerate(flat_rows(base)):
            for label, frames in mutants_at(base, pos):
                r = judge_mutant(base, frames, label)
                if r is None:
                    continue
                n += 1
                for kind, msg in r:
                    results.append({"base": base["name"], "pos": pos, "label": label,
                                    "kind": kind, "msg": msg})
    return {"optimize": sys.flags.optimize, "counted": n, "results": results}


def run(ctx) -> None:
    DR.ensure_rdflib_plugin()
    size = "full"  # the whole space costs about a second: both tiers run all of it
    bs = bases(size)
    merged = pool.merge(pool.pmap(shard, [(size, i) for i in range(len(bs))]))
    ctx.add(merged)
    for v in optimised_process():
        ctx.violation({"class": v["label"], "fail": v["kind"].split("-")[0], "mode": "python -O"},
                      f"under python -O (PYTHONOPTIMIZE=1): {v['base']} row {v['pos']}: {v['msg']}",
                      {"size": size, "base": v["base"], "pos": v["pos"], "label": v["label"],
                       "optimize": True})
    classes = {k[6:]: v for k, v in merged["counters"].items() if k.startswith("class:")}
    if len(classes) < 15:
        raise HarnessError(f"only {len(classes)} violation classes produced counted mutants")
    ctx.coverage.update(
        evaluations=merged["evals"],
        distinct_nontrivial=merged["nontrivial"],
        base_streams=len(bs),
        mutants_per_class=classes,
        not_counted_because_reference_decoder_accepts=merged["counters"].get("not_counted_valid", 0),
        exhaustive=True,
        samples=merged["samples"],
        rule=(
            "base streams (pyjelly-written, 3 physical types, datatype table 0 and >0, quoted "
            "triples) x every row position x every applicable violation class (entry id / "
            "reference beyond size, unfilled slot, datatype 0 / with disabled table, repeat marker "
            "without previous / inside quoted triple, options missing, forbidden row kind, triple "
            "outside a graph, unsupported version / physical type); a mutant counts only if jspec "
            "rejects it; 6 parsers each; all of it once more in a python -O process; "
            "non-trivial = counted mutant"
        ),
    )


def replay(case: dict) -> list:
    if case.get("optimize"):
        return [v["msg"] for v in optimised_process()
                if (v["base"], v["pos"], v["label"]) == (case["base"], case["pos"], case["label"])]
    DR.ensure_rdflib_plugin()
    base = next(b for b in bases(case["size"]) if b["name"] == case["base"])
    for label, frames in mutants_at(base, case["pos"]):
        if label == case["label"]:
            r = judge_mutant(base, frames, label)
            return [m for _, m in (r or [])]
    return []


if __name__ == "__main__":
    import json as _json
    import os as _os
    import sys as _sys

    if _os.environ.get("VERIF_C16_OPT"):
        from mc import env as _env

        _env.pin()
        DR.ensure_rdflib_plugin()
        print(_json.dumps(header_mutants_in_this_process()))
