"""C05 - writer and reader lookup tables stay mirrored for all histories.

Explicit-state BFS to a fixpoint over the real LookupEncoder + LookupDecoder
(layer 1, per index rule and table size, modulo renaming of ordinary keys) and
over the real TermEncoder + Decoder glue (layer 2).
"""
from __future__ import annotations

import math

from mc import pool
from mc.explore import bfs as B

LEVEL = "model_checking"
RULES = ("name", "prefix", "datatype")


# ------------------------------------------------------------------ layer 1
class Pair:
    def __init__(self, rule: str, n: int) -> None:
        from pyjelly.parse.lookup import LookupDecoder  # noqa: PLC0415
        from pyjelly.serialize.lookup import LookupEncoder  # noqa: PLC0415

        self.rule = rule
        self.n = n
        self.enc = LookupEncoder(lookup_size=n)
        self.dec = LookupDecoder(lookup_size=n)


def keys_for(rule: str, n: int) -> list[str]:
    ks = [f"k{i}" for i in range(n + 2)]
    if rule == "prefix":
        ks = ["", *ks]  # the distinguished empty prefix is a constant, not renamed
    return ks


def step1(st: Pair, k: str) -> list[str]:
    fails: list[str] = []
    n = st.n
    enc, dec = st.enc, st.dec
    try:
        eid = enc.encode_entry_index(k)
        if eid is not None:
            if not (isinstance(eid, int) and 0 <= eid <= n):
                fails.append(f"entry id {eid!r} outside [0,{n}]")
            dec.assign_entry(eid, k)
        tid = getattr(enc, f"encode_{st.rule}_term_index")(k)
        if not (isinstance(tid, int) and 0 <= tid <= n):
            fails.append(f"term index {tid!r} outside [0,{n}]")
        got = getattr(dec, f"decode_{st.rule}_term_index")(tid)
        if got != k:
            fails.append(f"use({k!r}): wire index {tid} resolves to {got!r} on the reader")
    except Exception as e:  # noqa: BLE001
        fails.append(f"use({k!r}) raised {type(e).__name__}: {e}")
        return fails
    live_w = len(enc.lookup.data)
    live_r = sum(1 for v in dec.data if v is not None)
    if live_w > n or live_r > n or len(dec.data) > n:
        fails.append(f"live entries writer={live_w} reader={live_r} exceed size {n}")
    for key, idx in enc.lookup.data.items():
        if not 1 <= idx <= n:
            fails.append(f"writer holds index {idx} outside [1,{n}]")
        elif dec.data[idx - 1] != key:
            fails.append(
                f"mirror broken: writer {key!r}->{idx}, reader slot {idx} = {dec.data[idx - 1]!r}"
            )
    return fails


def relabel(d, alpha: frozenset, m: dict):
    if isinstance(d, str):
        if d in alpha:
            if d not in m:
                m[d] = f"#{len(m)}"
            return m[d]
        return d
    if isinstance(d, tuple):
        return tuple(relabel(x, alpha, m) for x in d)
    return d


def explore1(rule: str, n: int, reduce: bool, max_states: int):
    keys = keys_for(rule, n)
    alpha = frozenset(k for k in keys if k)
    orbit_sum = [0]

    def canon(st: Pair):
        d = (B.dump(st.enc), B.dump(st.dec))
        if not reduce:
            return d
        m: dict = {}
        out = relabel(d, alpha, m)
        return out

    res = B.bfs(
        init=lambda: Pair(rule, n),
        events=lambda st: keys,
        step=step1,
        canon=canon,
        max_states=max_states,
    )
    return res


def shard1(job) -> dict:
    rule, n, reduce, max_states = job
    acc = pool.Acc()
    res = explore1(rule, n, reduce, max_states)
    acc.evals = res.transitions
    acc.extra = {
        "layer": 1, "rule": rule, "n": n, "reduced": reduce, "states": res.states,
        "transitions": res.transitions, "closed": res.closed, "max_depth": res.max_depth,
        "depth_complete": res.depth_complete,
    }
    for f in res.failures:
        acc.violation(
            {"layer": 1, "rule": rule, "n": n},
            f"{rule} table size {n}: after {f['path'][:-1]} then use({f['path'][-1]!r}): "
            + "; ".join(f["fails"]),
            {"layer": 1, "rule": rule, "n": n, "path": f["path"]},
            f["fails"],
        )
    for p in res.sample_paths[:1]:
        acc.sample({"layer": 1, "rule": rule, "n": n, "history": p})
    return acc.out()


def orbit_check(rule: str, n: int) -> dict:
    """Validate the symmetry reduction: unreduced count == sum of orbit sizes."""
    keys = keys_for(rule, n)
    alpha = frozenset(k for k in keys if k)
    a = len(alpha)
    red: dict = {}

    def canon_r(st: Pair):
        d = (B.dump(st.enc), B.dump(st.dec))
        m: dict = {}
        out = relabel(d, alpha, m)
        red[out] = len(m)
        return out

    r1 = B.bfs(lambda: Pair(rule, n), lambda st: keys, step1, canon_r)
    r2 = explore1(rule, n, False, 10**9)
    expect = sum(math.perm(a, m) for m in red.values())
    return {
        "rule": rule, "n": n, "reduced_states": r1.states, "unreduced_states": r2.states,
        "sum_orbits": expect,
        "ok": expect == r2.states and bool(r1.failures) == bool(r2.failures)
        and r1.closed and r2.closed,
    }


def shard_orbit(job) -> dict:
    acc = pool.Acc()
    acc.extra = {"orbit": orbit_check(*job)}
    return acc.out()


# ------------------------------------------------------------------ layer 2
class Glue:
    def __init__(self, names: int, prefixes: int, datatypes: int) -> None:
        from pyjelly import jelly  # noqa: PLC0415
        from pyjelly.integrations.generic.parse import GenericTriplesAdapter  # noqa: PLC0415
        from pyjelly.integrations.generic.serialize import GenericSinkTermEncoder  # noqa: PLC0415
        from pyjelly.options import LookupPreset, StreamParameters, StreamTypes  # noqa: PLC0415
        from pyjelly.parse.decode import Decoder, ParserOptions  # noqa: PLC0415

        preset = LookupPreset(max_names=names, max_prefixes=prefixes, max_datatypes=datatypes)
        self.sizes = (names, prefixes, datatypes)
        self.enc = GenericSinkTermEncoder(lookup_preset=preset)
        opts = ParserOptions(
            stream_types=StreamTypes(physical_type=jelly.PHYSICAL_STREAM_TYPE_TRIPLES),
            lookup_preset=preset,
            params=StreamParameters(),
        )
        self.dec = Decoder(GenericTriplesAdapter(opts))


def glue_events(names: int, prefixes: int, datatypes: int, npfx: int, nnames: int) -> list:
    """IRIs over (prefixes+1 real prefixes + the empty prefix) x nnames names;
    literals over datatypes+1 datatype strings that collide with IRI strings."""
    pf = [f"http://p{i}/" for i in range(npfx)] + ([""] if prefixes else [])
    nm = [f"n{j}" for j in range(nnames)]
    evs: list = []
    for p in pf:
        for j in range(min(2, len(nm))):
            evs.append(("iri", p + nm[j]))
    for j in range(2, len(nm)):
        evs.append(("iri", pf[0] + nm[j]))
    for p in pf[:2] + pf[-1:]:
        evs.append(("ns", p + nm[0]))  # the IRI of a namespace declaration shares the cursors
    if datatypes:
        for i in range(datatypes + 2):  # two more than the table: consecutive evictions
            evs.append(("lit", f"http://p0/n{i}"))
    if datatypes:
        evs.append(("langlit",))  # "x"@en given together with rdf:langString: no table entry
        evs.append(("glit", f"http://p0/n{datatypes + 1}"))  # a typed literal as graph name
    evs.append(("opt",))  # the writer repeats its (identical) options row mid-stream
    if prefixes:
        # one row that holds an IRI and a quoted triple: more IRIs per row than any plain row
        iris = [e[1] for e in evs if e[0] == "iri"]
        for k in range(min(3, len(iris))):
            evs.append(("qrow", iris[k], tuple(iris[(k + j + 1) % len(iris)] for j in range(3))))
    return evs


def step2(st: Glue, ev) -> list[str]:
    from pyjelly import jelly  # noqa: PLC0415

    fails: list[str] = []
    names, prefixes, datatypes = st.sizes
    try:
        if hasattr(st.enc, "new_row"):
            st.enc.new_row()  # each event stands for one row (statement) of its own
        if ev[0] == "iri":
            msg = jelly.RdfIri()
            rows = st.enc.encode_iri(ev[1], msg)
            for r in rows:
                which = r.WhichOneof("row")
                ent = getattr(r, which)
                size = {"name": names, "prefix": prefixes, "datatype": datatypes}[which]
                if not 0 <= ent.id <= size:
                    fails.append(f"{which} entry id {ent.id} outside [0,{size}]")
                st.dec.decode_row(ent)
            if not (0 <= msg.prefix_id <= prefixes and 0 <= msg.name_id <= names):
                fails.append(f"iri ids ({msg.prefix_id},{msg.name_id}) out of range")
            got = st.dec.decode_iri(msg)
            if got._iri != ev[1]:
                fails.append(f"IRI {ev[1]!r} decodes to {got._iri!r}")
        elif ev[0] == "glit":
            from pyjelly.integrations.generic import generic_sink as gs  # noqa: PLC0415

            quad = jelly.RdfQuad()
            rows = st.enc.encode_graph(gs.Literal("g", None, ev[1]), quad)
            for r in rows:
                st.dec.decode_row(getattr(r, r.WhichOneof("row")))
            got = st.dec.decode_literal(quad.g_literal)
            if got._datatype != ev[1]:
                fails.append(f"graph-name literal typed {ev[1]!r} decodes to {got._datatype!r}")
        elif ev[0] == "langlit":
            msg = jelly.RdfLiteral()
            rows = st.enc.encode_literal(
                lex="x", language="en",
                datatype="http://www.w3.org/1999/02/22-rdf-syntax-ns#langString", literal=msg)
            for r in rows:
                st.dec.decode_row(getattr(r, r.WhichOneof("row")))
            got = st.dec.decode_literal(msg)
            if got._langtag != "en" or got._lex != "x":
                fails.append(f"language-tagged literal decodes to {got!r}")
        elif ev[0] == "qrow":
            from pyjelly.errors import JellyConformanceError  # noqa: PLC0415
            from pyjelly.integrations.generic import generic_sink as gs  # noqa: PLC0415

            outer = jelly.RdfIri()
            quoted = jelly.RdfTriple()
            try:
                rows = list(st.enc.encode_iri(ev[1], outer))
                rows += list(st.enc.encode_quoted_triple([gs.IRI(x) for x in ev[2]], quoted))
            except JellyConformanceError:
                # refused (the row needs more entries than a table holds): the encoder may not be
                # used any further; the search goes on from a fresh pair
                st.__init__(*st.sizes)
                return fails
            for r in rows:
                st.dec.decode_row(getattr(r, r.WhichOneof("row")))
            got = [st.dec.decode_iri(outer)._iri]
            q = st.dec.decode_quoted_triple(quoted)
            got += [t._iri for t in (q.s, q.p, q.o)]
            want = [ev[1], *ev[2]]
            if got != want:
                fails.append(f"row with IRI and quoted triple {want} decodes to {got}")
        elif ev[0] == "opt":
            from pyjelly.options import StreamParameters, StreamTypes  # noqa: PLC0415
            from pyjelly.serialize.encode import encode_options  # noqa: PLC0415

            row = encode_options(st.enc.lookup_preset if hasattr(st.enc, "lookup_preset")
                                 else st.dec.options.lookup_preset,
                                 StreamTypes(physical_type=jelly.PHYSICAL_STREAM_TYPE_TRIPLES),
                                 StreamParameters())
            st.dec.decode_row(row.options)  # tables and cursors of both sides must survive it
        elif ev[0] == "ns":
            from pyjelly.serialize.encode import encode_namespace_declaration  # noqa: PLC0415

            rows = encode_namespace_declaration("p", ev[1], st.enc)
            for r in rows[:-1]:
                st.dec.decode_row(getattr(r, r.WhichOneof("row")))
            got = st.dec.decode_namespace_declaration(rows[-1].namespace)
            iri = got.iri._iri if hasattr(got.iri, "_iri") else str(got.iri)
            if iri != ev[1] or got.prefix != "p":
                fails.append(f"namespace declaration of {ev[1]!r} decodes to {iri!r}")
        else:
            msg = jelly.RdfLiteral()
            rows = st.enc.encode_literal(lex="x", datatype=ev[1], literal=msg)
            for r in rows:
                ent = getattr(r, r.WhichOneof("row"))
                if not 0 <= ent.id <= datatypes:
                    fails.append(f"datatype entry id {ent.id} outside [0,{datatypes}]")
                st.dec.decode_row(ent)
            got = st.dec.decode_literal(msg)
            if got._datatype != ev[1] or got._lex != "x":
                fails.append(f"datatype {ev[1]!r} decodes to {got._datatype!r}")
    except Exception as e:  # noqa: BLE001
        fails.append(f"{ev} raised {type(e).__name__}: {e}")
        return fails
    for which, size in (("names", names), ("prefixes", prefixes), ("datatypes", datatypes)):
        w = getattr(st.enc, which).lookup.data
        r = getattr(st.dec, which).data
        if len(w) > size or sum(1 for v in r if v is not None) > size:
            fails.append(f"{which}: live entries exceed {size}")
        for key, idx in w.items():
            if not 1 <= idx <= size or r[idx - 1] != key:
                fails.append(f"{which}: mirror broken after {ev}: writer {key!r}->{idx}, reader "
                             f"slot holds {r[idx - 1] if 1 <= idx <= size else None!r}")
                break
    return fails


def shard2(job) -> dict:
    names, prefixes, datatypes, npfx, nnames, max_states = job
    acc = pool.Acc()
    evs = glue_events(names, prefixes, datatypes, npfx, nnames)
    res = B.bfs(
        init=lambda: Glue(names, prefixes, datatypes),
        events=lambda st: evs,
        step=step2,
        canon=lambda st: (B.dump(st.enc), B.dump(st.dec.names), B.dump(st.dec.prefixes),
                          B.dump(st.dec.datatypes)),
        max_states=max_states,
        ev_json=list,
    )
    acc.evals = res.transitions
    acc.extra = {
        "layer": 2, "sizes": [names, prefixes, datatypes], "prefixes_used": npfx, "names_used": nnames,
        "states": res.states,
        "transitions": res.transitions, "closed": res.closed, "max_depth": res.max_depth,
        "depth_complete": res.depth_complete, "events": len(evs),
    }
    for f in res.failures:
        acc.violation(
            {"layer": 2, "sizes": [names, prefixes, datatypes]},
            f"TermEncoder/Decoder sizes {job[:3]}: history {f['path']}: " + "; ".join(f["fails"]),
            {"layer": 2, "sizes": [names, prefixes, datatypes], "path": f["path"]},
            f["fails"],
        )
    for p in res.sample_paths[:1]:
        acc.sample({"layer": 2, "sizes": [names, prefixes, datatypes], "history": p})
    return acc.out()


# ------------------------------------------------------------------ layer 3
def patterns(n: int):
    """Deterministic access-pattern families over n+2 keys for a table of size n."""
    m = n + 2
    keys = [f"k{i}" for i in range(m)]
    yield "scan x3", keys * 3
    yield "scan then reverse", keys + keys[::-1] + keys
    yield "hit/miss alternation", [k for i in range(2 * m) for k in (keys[0], keys[(i % (m - 1)) + 1])]
    yield "stride 3", [keys[(3 * i) % m] for i in range(3 * m)]
    yield "working set n then sweep", keys[:n] * 2 + keys[n:] + keys[:n]


def shard3(job) -> dict:
    """Large table sizes (varint and limit boundaries): linear histories, full oracle per step."""
    rule, n = job
    acc = pool.Acc()
    for label, hist in patterns(n):
        st = Pair(rule, n)
        if rule == "prefix":
            hist = [""] + hist[: len(hist) // 2] + [""] + hist[len(hist) // 2:] + [""]
        for i, k in enumerate(hist):
            acc.evals += 1
            fails = step1(st, k) if (i % 64 == 0 or n <= 300) else step1_light(st, k)
            if fails:
                acc.violation({"layer": 3, "rule": rule},
                              f"{rule} table size {n}, pattern '{label}', step {i} use({k!r}): "
                              + "; ".join(fails[:2]),
                              {"layer": 3, "rule": rule, "n": n, "pattern": label, "step": i})
                break
    acc.extra = {"layer": 3, "rule": rule, "n": n, "states": 0,
                 "transitions": acc.evals, "closed": False, "max_depth": 0, "depth_complete": 0}
    acc.sample({"layer": 3, "rule": rule, "n": n, "patterns": [p for p, _ in patterns(4)]}, cap=1)
    return acc.out()


def step1_light(st: Pair, k: str) -> list[str]:
    """step1 without the O(n) full-mirror scan (used between full checks on huge tables)."""
    n = st.n
    try:
        eid = st.enc.encode_entry_index(k)
        if eid is not None:
            if not 0 <= eid <= n:
                return [f"entry id {eid!r} outside [0,{n}]"]
            st.dec.assign_entry(eid, k)
        tid = getattr(st.enc, f"encode_{st.rule}_term_index")(k)
        if not 0 <= tid <= n:
            return [f"term index {tid!r} outside [0,{n}]"]
        got = getattr(st.dec, f"decode_{st.rule}_term_index")(tid)
        if got != k:
            return [f"use({k!r}): wire index {tid} resolves to {got!r} on the reader"]
    except Exception as e:  # noqa: BLE001
        return [f"use({k!r}) raised {type(e).__name__}: {e}"]
    return []


# ------------------------------------------------------------------ layer 4
def declared_case(rule: str, n: int):
    """(sequence, preset): n+2 distinct keys of one table of declared size n, then the first
    three again, written by the real stream classes."""
    from mc.terms import I, L  # noqa: PLC0415

    idx = list(range(n + 2)) + [0, 1, 2]
    if rule == "name":
        seq = [(I(f"http://p/n{i}"), I("http://p/p"), L("x")) for i in idx]
        preset = (n, 4, 0)
    elif rule == "prefix":
        seq = [(I(f"http://p{i}/n"), I("http://p0/n"), L("x")) for i in idx]
        preset = (8, n, 0)
    else:
        seq = [(I("http://p/s"), I("http://p/p"), L("x", None, f"http://d/{i}")) for i in idx]
        preset = (8, 4, n)
    return seq, preset


def run_grouped_restart(case: dict) -> list[str]:
    """Several containers through one grouped stream, the first one holding namespace bindings
    but no statement: whatever the entry point does between containers, writer and reader
    tables must stay mirrored (the reference decoder reads what was meant)."""
    from mc import drivers as DR  # noqa: PLC0415
    from mc.checks import c14  # noqa: PLC0415
    from mc.terms import DEFAULT, I, L  # noqa: PLC0415

    DR.ensure_rdflib_plugin()
    api, cls = case["api"], case["cls"]
    binds = [("a", "http://a.example/ns#"), ("b", "http://b.example/vocab/")]
    seq = [(I("http://b.example/vocab/s"), I("http://a.example/ns#p"), L("x")),
           (I("http://a.example/ns#s"), I("http://b.example/vocab/p"), I("http://b.example/vocab/o"))]
    if cls == "quad":
        seq = [(*seq[0], DEFAULT), (*seq[1], I("http://a.example/ns#g"))]
    src_ns = list(binds) if api == "generic" else [
        (p, str(u)) for p, u in c14.r_source(cls, [], binds).namespaces()]
    import mc.terms as T  # noqa: PLC0415

    fails = c14._grouped(api, cls, [[], seq], binds, (8, 3, 0), src_ns, T.norm_seq(seq),
                         api == "rdflib", "an empty first container with bindings")
    return [m for _, m in fails]


def run_recut(case: dict) -> list[str]:
    """An evicting stream cut so that every row is a frame of its own (lookup entries travel in
    frames without any statement): both integrations must still resolve every reference."""
    from mc import drivers as DR  # noqa: PLC0415
    from mc import jwire  # noqa: PLC0415
    from mc import terms as T  # noqa: PLC0415

    DR.ensure_rdflib_plugin()
    seq, preset = declared_case(case["sub"], 8 if case["sub"] == "name" else 2)
    seq = seq[:8]
    data = DR.g_write(seq, "triple", DR.make_options("triple", preset, 250, True,
                                                     generalized=False, rdf_star=False))
    rows = [r for f in jwire.read_delimited(data) for r in f["rows"]]
    recut = jwire.write_delimited([jwire.enc_frame([r]) for r in rows])
    fails = []
    for api in ("generic", "rdflib"):
        for reader in ("flat", "grouped"):
            try:
                got = DR.stmts_of((DR.g_read if api == "generic" else DR.r_read)(recut, reader))
            except Exception as e:  # noqa: BLE001
                fails.append(f"{api} {reader}: a frame per row: {type(e).__name__}: {e}")
                continue
            want = T.norm_seq(seq)
            if (set(got) != set(want)) if (api == "rdflib" and reader != "flat") else got != want:
                fails.append(f"{api} {reader}: a frame per row decodes to other statements than "
                             f"the same rows in one frame")
    return fails


def run_no_options(case: dict) -> list[str]:
    """Stream objects built without options / preset arguments: whatever defaults apply, the
    table sizes in the options row are the sizes the encoder works with."""
    import io  # noqa: PLC0415

    from mc import drivers as DR  # noqa: PLC0415
    from mc import jspec  # noqa: PLC0415
    from mc import terms as T  # noqa: PLC0415
    from mc.terms import I, L  # noqa: PLC0415
    from pyjelly.serialize import streams  # noqa: PLC0415
    from pyjelly.serialize.ioutils import write_delimited  # noqa: PLC0415

    api = case["api"]
    if api == "rdflib":
        stream = streams.TripleStream.for_rdflib()
    else:
        from pyjelly.integrations.generic.serialize import GenericSinkTermEncoder  # noqa: PLC0415

        stream = streams.TripleStream(encoder=GenericSinkTermEncoder())
    conv = T.st_to_generic if api == "generic" else T.st_to_rdflib
    seq = [(I(f"http://p{i % 60}.example/n{i}"), I("http://p0.example/p"),
            L(str(i), None, f"http://d.example/t{i % 40}")) for i in range(400)]
    out = io.BytesIO()
    stream.enroll()
    for st in seq:
        fr = stream.triple(conv(st))
        if fr is not None:
            write_delimited(fr, out)
    fr = stream.flow.to_stream_frame()
    if fr is not None:
        write_delimited(fr, out)
    try:
        _, per = jspec.decode_bytes(out.getvalue())
    except jspec.SpecViolation as e:
        return [f"stream built without options ({api}): its rows violate its own options row: {e}"]
    got = [T.norm_st(x) for x in jspec.statements(per)]
    if got != T.norm_seq(seq):
        return [f"stream built without options ({api}): decodes to other statements"]
    return []


def run_reflexive(case: dict) -> list[str]:
    """Statements that use one IRI in two slots (x sameAs x; subject == graph name), between
    statements of other namespaces: every reference must resolve on a reader to what was meant."""
    import itertools  # noqa: PLC0415

    from mc import drivers as DR  # noqa: PLC0415
    from mc import jspec  # noqa: PLC0415
    from mc import terms as T  # noqa: PLC0415
    from mc.terms import I  # noqa: PLC0415

    DR.ensure_rdflib_plugin()
    api, cls = case["api"], case["cls"]
    a, b = "http://a.example/ns#", "http://b.example/vocab/"
    alpha = [(I(a + "x"), I(a + "p"), I(a + "x")), (I(b + "y"), I(b + "q"), I(b + "y")),
             (I(a + "n"), I(a + "q"), I(a + "a")), (I(b + "y"), I(a + "p"), I(a + "x")),
             (I(a + "x"), I(b + "q"), I(b + "y"))]
    if cls == "quad":
        gs = [0, 2, 0, 2, 1]  # graph name = the statement's subject / object / predicate
        alpha = [(*t, t[g]) for t, g in zip(alpha, gs)]
    fails = []
    for preset in ((8, 4, 0), (8, 0, 0), (16, 2, 0)):
        for k in (1, 2, 3):
            for seq in itertools.product(alpha, repeat=k):
                opts = DR.make_options(cls, preset, 250, True, generalized=False, rdf_star=False)
                try:
                    data = (DR.g_write if api == "generic" else DR.r_write)(list(seq), cls, opts)
                    _, per = jspec.decode_bytes(data)
                    got = [T.norm_st(x) for x in jspec.statements(per)]
                except jspec.SpecViolation as e:
                    fails.append(f"{api} {cls} tables {preset}: {list(seq)} is written as a stream "
                                 f"that violates the format: {e}")
                    continue
                if got != T.norm_seq(list(seq)):
                    fails.append(f"{api} {cls} tables {preset}: {list(seq)} resolves on a reader "
                                 f"to {got}")
                if len(fails) > 5:
                    return fails
    return fails


def run_broken_source(case: dict) -> list[str]:
    """One stream object serves several stream_frames() calls; the caller's statement source of
    the first call breaks off (raises, or the frame generator is closed). Entries the writer
    assigned for statements it took must still reach the reader before they are referred to."""
    from mc import drivers as DR  # noqa: PLC0415
    from mc import jspec  # noqa: PLC0415
    from mc import terms as T  # noqa: PLC0415
    from mc.terms import I, L  # noqa: PLC0415

    DR.ensure_rdflib_plugin()
    api, cls, how, k, fs = case["api"], case["cls"], case["how"], case["k"], case["fs"]
    a, b = "http://a.example/ns#", "http://b.example/vocab/"
    first = [(I(a + "s1"), I(a + "p"), L("1", None, "http://d.example/t")),
             (I(b + "s2"), I(a + "p"), I(b + "o2")), (I(a + "s3"), I(b + "q"), I(a + "s1")),
             (I(b + "s4"), I(b + "q"), L("4", None, "http://d.example/t"))]
    second = [(I(b + "o2"), I(b + "q"), I(a + "s1")), (I(a + "s3"), I(a + "p"),
                                                        L("5", None, "http://d.example/t"))]
    if cls == "quad":
        first = [(*t, I(a + "g")) for t in first]
        second = [(*t, I(b + "s2")) for t in second]
    conv = T.st_to_generic if api == "generic" else T.st_to_rdflib
    if api == "generic":
        from pyjelly.integrations.generic import serialize as ser  # noqa: PLC0415
    else:
        from pyjelly.integrations.rdflib import serialize as ser  # noqa: PLC0415
    opts = DR.make_options(cls, (8, 4, 2), fs, True, generalized=False, rdf_star=False)
    stream = (DR.g_stream if api == "generic" else DR.r_stream)(cls, opts)
    taken: list = []

    def source():
        for i, st in enumerate(first):
            if how == "raise" and i == k:
                raise RuntimeError("the caller's source broke off")
            taken.append(st)
            yield conv(st)

    blobs = []
    gen = ser.stream_frames(stream, source())
    try:
        for n, f in enumerate(gen):
            blobs.append(f.SerializeToString())
            if how == "close" and n + 1 == k:
                gen.close()
                break
    except RuntimeError:
        pass
    try:
        for f in ser.stream_frames(stream, (conv(st) for st in second)):
            blobs.append(f.SerializeToString())
    except Exception as e:  # noqa: BLE001
        return []  # a stream that refuses further use after the interruption is fine
    from mc import jwire  # noqa: PLC0415

    want = T.norm_seq(taken + second)
    try:
        _, per = jspec.decode_frames(jwire.read_delimited(jwire.write_delimited(blobs)))
        got = [T.norm_st(x) for x in jspec.statements(per)]
    except (jspec.SpecViolation, jwire.WireError) as e:
        return [f"{api} {cls}: the source of the first stream_frames() call broke off ({how} at "
                f"{k}, frame size {fs}); the frames of both calls together violate the format: {e}"]
    if got != want and not (how == "close" and got == [s for s in want if s in got]
                            and all(s in got for s in T.norm_seq(second))
                            and jspec_clean_prefix(got, want)):
        return [f"{api} {cls}: after the first call's source broke off ({how} at {k}, frame size "
                f"{fs}) the frames decode to {got}, the statements taken were {want}"]
    return []


def jspec_clean_prefix(got: list, want: list) -> bool:
    """got is want with some statements left out (never an altered or invented one)."""
    it = iter(want)
    return all(any(g == w for w in it) for g in got)


def run_spellings(case: dict) -> list[str]:
    """Strings that differ only in their Unicode normal form (or letter case) are different
    table entries: every id must resolve on a reader to the spelling the writer was given."""
    import itertools  # noqa: PLC0415

    from mc import drivers as DR  # noqa: PLC0415
    from mc import jspec  # noqa: PLC0415
    from mc import terms as T  # noqa: PLC0415
    from mc.terms import I, L  # noqa: PLC0415

    DR.ensure_rdflib_plugin()
    api = case["api"]
    nfc, nfd = "caf\u00e9", "cafe\u0301"
    alpha = [(I("http://a/" + nfc), I("http://a/p"), I("http://a/" + nfd)),
             (I("http://" + nfd + ".example/x"), I("http://a/p"), I("http://" + nfc + ".example/x")),
             (I("http://a/" + nfd), I("http://a/P"), L("v", None, "http://d/" + nfc)),
             (I("http://a/x"), I("http://a/p"), L("v", None, "http://d/" + nfd))]
    fails = []
    for preset in ((8, 4, 4), (8, 0, 2), (8, 2, 1)):
        for k in (1, 2, 3):
            for seq in itertools.product(alpha, repeat=k):
                opts = DR.make_options("triple", preset, 250, True, generalized=False,
                                       rdf_star=False)
                try:
                    data = (DR.g_write if api == "generic" else DR.r_write)(list(seq), "triple",
                                                                            opts)
                    _, per = jspec.decode_bytes(data)
                    got = [T.norm_st(x) for x in jspec.statements(per)]
                except jspec.SpecViolation as e:
                    fails.append(f"{api} tables {preset}: spellings {list(seq)}: invalid: {e}")
                    continue
                except Exception:  # noqa: BLE001  (a refusal: more entries than a table holds)
                    continue
                if got != T.norm_seq(list(seq)):
                    fails.append(f"{api} tables {preset}: {ascii(list(seq))} resolves on a reader "
                                 f"to {ascii(got)}")
                if len(fails) > 3:
                    return fails
    return fails


def run_nested_datatypes(case: dict) -> list[str]:
    """One RDF-star statement whose nested quoted triples name n datatypes, datatype table of
    size m: refused, or every datatype id resolves to the datatype that was meant."""
    from mc import drivers as DR  # noqa: PLC0415
    from mc import jspec  # noqa: PLC0415
    from mc import terms as T  # noqa: PLC0415
    from mc.terms import I, L  # noqa: PLC0415

    n, m = case["n"], case["m"]
    inner = (L("1", None, "http://d/t1"), I("http://a/p"), L("2", None, "http://d/t2"))
    for i in range(3, n + 1):
        inner = (("T", *inner), I("http://a/p"), L(str(i), None, f"http://d/t{i}"))
    seq = [(I("http://a/s"), I("http://a/p"), L("0", None, "http://d/t1")), inner]
    opts = DR.make_options("triple", (16, 4, m), 250, True, generalized=True, rdf_star=True)
    try:
        data = DR.g_write(seq, "triple", opts)
    except Exception:  # noqa: BLE001
        return []
    try:
        _, per = jspec.decode_bytes(data)
        got = [T.norm_st(x) for x in jspec.statements(per)]
    except jspec.SpecViolation as e:
        return [f"{n} datatypes in one nested statement, table {m}: accepted, invalid stream: {e}"]
    if got != T.norm_seq(seq):
        return [f"{n} datatypes in one nested statement, table {m}: accepted, a reader resolves "
                f"it to {got[-1]}"]
    return []


def run_declared(case: dict) -> list[str]:
    if case["rule"] == "spellings":
        return run_spellings(case)
    if case["rule"] == "nested-datatypes":
        return run_nested_datatypes(case)
    if case["rule"] == "reflexive":
        return run_reflexive(case)
    if case["rule"] == "broken-source":
        return run_broken_source(case)
    if case["rule"] == "no-options":
        return run_no_options(case)
    if case["rule"] == "grouped-restart":
        return run_grouped_restart(case)
    if case["rule"] == "recut":
        return run_recut(case)
    from mc import drivers as DR  # noqa: PLC0415
    from mc import jspec  # noqa: PLC0415
    from mc import terms as T  # noqa: PLC0415

    seq, preset = declared_case(case["rule"], case["n"])
    try:
        data = DR.g_write(seq, "triple", DR.make_options("triple", preset, 250, True))
    except Exception:  # noqa: BLE001
        return []  # refusing a table size is not a violation
    try:
        _, per = jspec.decode_bytes(data)
    except jspec.SpecViolation as e:
        return [f"{case['rule']} table declared by the writer's own options row is violated by "
                f"its own rows: {e}"]
    got = [T.norm_st(x) for x in jspec.statements(per)]
    if got != T.norm_seq(seq):
        bad = next(i for i, (a, b) in enumerate(zip(got, T.norm_seq(seq))) if a != b)
        return [f"statement {bad} resolves to {got[bad]} on a reader, writer meant {seq[bad]}"]
    return []


def shard4(job) -> dict:
    rule, n = job
    acc = pool.Acc()
    case = {"layer": 4, "rule": rule, "n": n}
    if rule == "grouped-restart":
        api, cls = n
        case = {"layer": 4, "rule": rule, "n": 0, "api": api, "cls": cls}
        n = 0
    if rule == "recut":
        case = {"layer": 4, "rule": rule, "n": 0, "sub": n}
        n = 0
    if rule == "no-options":
        case = {"layer": 4, "rule": rule, "n": 0, "api": n}
        n = 0
    if rule == "spellings":
        case = {"layer": 4, "rule": rule, "n": 0, "api": n}
        n = 3 * 84 - 5
    if rule == "nested-datatypes":
        case = {"layer": 4, "rule": rule, "n": n[0], "m": n[1]}
        n = 0
    if rule == "reflexive":
        case = {"layer": 4, "rule": rule, "n": 0, "api": n[0], "cls": n[1]}
        n = 3 * 155 - 5
    if rule == "broken-source":
        api, cls, how, k, fs = n
        case = {"layer": 4, "rule": rule, "n": 0, "api": api, "cls": cls, "how": how, "k": k,
                "fs": fs}
        n = 0
    acc.evals = n + 5
    for msg in run_declared(case):
        acc.violation({"layer": 4, "rule": rule}, f"table size {n}: {msg}", case)
    acc.extra = {"layer": 4, "rule": rule, "n": n, "states": 0, "transitions": n + 5,
                 "closed": False, "max_depth": 0, "depth_complete": 0}
    return acc.out()


def _dispatch(job) -> dict:
    return {"l1": shard1, "orbit": shard_orbit, "l2": shard2, "l3": shard3,
            "l4": shard4}[job[0]](job[1])


# ---------------------------------------------------------------------- run
def run(ctx) -> None:
    if ctx.quick:
        sizes = {"name": range(1, 7), "datatype": range(1, 7), "prefix": range(1, 6)}
        cap1 = 400_000
        glue = [(8, 1, 1, 2, 2, 30000), (8, 2, 0, 3, 2, 30000), (8, 0, 2, 1, 2, 30000),
                (8, 0, 3, 1, 1, 30000), (8, 0, 0, 1, 10, 3000)]
        orbit_n = (1, 2, 3)
    else:
        sizes = {"name": range(1, 9), "datatype": range(1, 9), "prefix": range(1, 8)}
        cap1 = 3_000_000
        glue = [(8, 1, 1, 2, 2, 10**6), (8, 2, 0, 3, 2, 10**6), (8, 0, 2, 1, 2, 10**6),
                (8, 2, 2, 3, 2, 10**6), (8, 3, 1, 4, 2, 10**6), (8, 1, 3, 2, 2, 10**6),
                (8, 0, 0, 1, 10, 150000), (9, 1, 0, 1, 11, 150000)]
        orbit_n = (1, 2, 3, 4)
    jobs = []
    for rule in RULES:
        for n in sizes[rule]:
            jobs.append(("l1", (rule, n, True, cap1)))
    for rule in RULES:
        for n in orbit_n:
            jobs.append(("orbit", (rule, n)))
    for g in glue:
        jobs.append(("l2", g))
    big = [9, 10, 16, 31, 32, 33, 63, 64, 65, 127, 128, 129, 255, 256, 257, 1023, 4095, 4096] \
        if ctx.quick else list(range(9, 300)) + [511, 512, 1023, 1024, 2047, 2048, 4095, 4096]
    for rule in RULES:
        for n in big:
            jobs.append(("l3", (rule, n)))
    for rule in RULES:
        for n in (8, 127, 128, 4095, 4096, 4097, 5000) if ctx.quick else \
                (8, 9, 127, 128, 129, 1000, 4095, 4096, 4097, 4098, 5000, 8192, 16384, 20000):
            if not (rule == "name" and n < 8):
                jobs.append(("l4", (rule, n)))
    for api, cls in (("generic", "quad"), ("rdflib", "triple"), ("rdflib", "quad")):
        jobs.append(("l4", ("grouped-restart", (api, cls))))
    for sub in ("name", "prefix", "datatype"):
        jobs.append(("l4", ("recut", sub)))
    for api in ("generic", "rdflib"):
        jobs.append(("l4", ("no-options", api)))
        jobs.append(("l4", ("spellings", api)))
        if api == "generic":
            for nn in range(2, 9):
                for mm in range(1, 8):
                    jobs.append(("l4", ("nested-datatypes", (nn, mm))))
        for cls in ("triple", "quad"):
            jobs.append(("l4", ("reflexive", (api, cls))))
            for how in ("raise", "close"):
                for k in (1, 2, 3):
                    for fs in (2, 5, 250):
                        jobs.append(("l4", ("broken-source", (api, cls, how, k, fs))))
    # biggest first so the pool stays busy
    def weight(j):
        if j[0] == "l1":
            return (8.5 if j[1][0] == "prefix" else 7) ** j[1][1]
        if j[0] == "l2":
            return min(j[1][5], 60000) * 30
        if j[0] in ("l3", "l4"):
            return (j[1][1] if isinstance(j[1][1], int) else 1) * 40
        return 7 ** (j[1][1] + 2)
    jobs.sort(key=weight, reverse=True)
    merged = pool.merge(pool.pmap(_dispatch, jobs))
    ctx.add(merged)
    tables = [e for e in merged["extras"] if "layer" in e]
    orbits = [e["orbit"] for e in merged["extras"] if "orbit" in e]
    for o in orbits:
        if not o["ok"]:
            from mc.env import HarnessError  # noqa: PLC0415

            raise HarnessError(f"symmetry reduction not validated: {o}")
    states = sum(t["states"] for t in tables)
    transitions = sum(t["transitions"] for t in tables)
    ctx.coverage.update(
        states=states,
        transitions=transitions,
        traces_validated_against_impl=transitions,
        samples=merged["samples"],
        exhaustive=all(t["closed"] for t in tables if t["layer"] == 1),
        large_table_sizes_swept=sorted({t["n"] for t in tables if t["layer"] == 3}),
        declared_sizes_checked_on_streams=sorted({t["n"] for t in tables if t["layer"] == 4}),
        searches=sorted([t for t in tables if t["layer"] not in (3, 4)], key=lambda t: (t["layer"], str(t.get("rule")), t.get("n", 0),
                                               t.get("sizes", []))),
        symmetry_validation=sorted(orbits, key=lambda o: (o["rule"], o["n"])),
        rule=(
            "BFS over real LookupEncoder+LookupDecoder per (index rule, table size n), events "
            "use(k) for n+2 keys (+ the empty prefix), states identified modulo renaming of "
            "ordinary keys; every transition executes the real encode/assign/decode calls, so "
            "traces_validated_against_impl == transitions; closed=true means fixpoint reached "
            "(holds for histories of any length); layer 3: for large table sizes (varint and "
            "4096-limit boundaries) five deterministic access-pattern families over n+2 keys with the "
            "same per-step oracle (linear histories, not a state-space closure); layer 4: whole "
            "streams from the real stream classes with n+2 distinct keys for declared sizes up to "
            "and beyond the 4096 limit, decoded by the reference decoder against the writer's own "
            "options row (ids within the declared size, every reference resolves)"
        ),
    )
    ctx.assumptions += [
        "lookup keys are opaque to LookupEncoder/LookupDecoder except the empty prefix "
        "(validated: unreduced state count == sum of orbit sizes for small n)",
        "table sizes above the explored bound behave like the explored ones (size-generic code)",
    ]


def replay(case: dict) -> list:
    if case["layer"] == 4:
        return run_declared(case)
    if case["layer"] == 3:
        hist = dict(patterns(case["n"]))[case["pattern"]]
        if case["rule"] == "prefix":
            hist = [""] + hist[: len(hist) // 2] + [""] + hist[len(hist) // 2:] + [""]
        st = Pair(case["rule"], case["n"])
        for k in hist[: case["step"] + 1]:
            out = step1(st, k)
            if out:
                return out
        return []
    if case["layer"] == 1:
        st = Pair(case["rule"], case["n"])
        out: list = []
        for k in case["path"]:
            out = step1(st, k)
            if out:
                return out
        return out
    st2 = Glue(*case["sizes"])
    out = []
    for ev in case["path"]:
        out = step2(st2, tuple(ev))
        if out:
            return out
    return out
