"""C12 - streams are isolated and serialization is deterministic.

(a) all merges of the step sequences of 2 (quick) / 3 (thorough) workloads;
(b) two real threads under a controlled scheduler, every schedule with <= 1
    (quick) / 2 (thorough) preemptions at line granularity inside pyjelly;
(c) all histories of length <= 3 of prior activity followed by a probe;
(d) fresh processes under several PYTHONHASHSEED values.
Oracle everywhere: identical to the solo, fresh run of the same workload.
"""
from __future__ import annotations

import hashlib
import io
import itertools
import os
import subprocess
import sys

from mc import drivers as DR
from mc import env, jwire, pool
from mc import terms as T
from mc.explore import threads as TH
from mc.terms import B, DEFAULT, I, L

LEVEL = "model_checking"

S3 = [(I("http://a/x"), I("http://a/p"), L("1")), (I("http://a/x"), I("http://b#q"), I("http://a/y")),
      (B("b"), I("http://a/p"), L("x", "en"))]
S3B = [(I("http://c/z"), I("http://a/p"), I("http://c/z")), (I("http://c/z"), I("http://a/p"), L("2"))]
G = [DEFAULT, I("http://a/g"), I("http://a/g")]
S4 = [(*t, g) for t, g in zip(S3, G)]
S4B = [(*t, g) for t, g in zip(S3B, [I("http://b#g"), DEFAULT])]
PRESET = (8, 3, 1)
# (other strings than S3 in the same table slots, each referred to again later)
SDB = [(I("http://c/z"), I("http://c/w"), I("http://c/v")), (I("http://c/z"), I("http://c/w"), L("2")),
       (I("http://c/u"), I("http://c/z"), I("http://c/w"))]


def _opts(cls, stream_name: str = ""):
    return DR.make_options(cls, PRESET, 250, True, generalized=False, rdf_star=False,
                           stream_name=stream_name)


XSD_INT = "http://www.w3.org/2001/XMLSchema#integer"
# lexical forms that rdflib may normalise ("002" -> "2"): whatever it does, it must not depend on
# which other parser happens to be alive
NC3 = [(I("http://a/x"), I("http://a/p"), L(lex, None, XSD_INT))
       for lex in ("01", "002", "+3", "0004", "00005", "+6")]
NC3B = [(I("http://a/y"), I("http://a/p"), L(lex, None, XSD_INT)) for lex in ("7", "08", "+9")]


def _bytes(frame) -> bytes:
    from pyjelly.serialize.ioutils import write_delimited  # noqa: PLC0415

    out = io.BytesIO()
    write_delimited(frame, out)
    return out.getvalue()


# ----------------------------------------------------------- step workloads
def w_serialize(api: str, cls: str, seq, shared_key=None, stream_name: str = "",
                delimited: bool = True):
    """Statement-level serializer workload; a generator whose yields are step boundaries."""

    def gen(shared: dict):
        if shared_key:
            opts = shared.setdefault(shared_key, _opts(cls))
        elif not delimited:
            opts = DR.make_options(cls, PRESET, 250, False, 0, generalized=False, rdf_star=False)
        else:
            opts = _opts(cls, stream_name)
        stream = DR.g_stream(cls, opts) if api == "generic" else DR.r_stream(cls, opts)
        conv = T.st_to_generic if api == "generic" else T.st_to_rdflib
        out = []
        stream.enroll()
        yield
        for st in seq:
            a = conv(st)
            if cls == "triple":
                fr = stream.triple(a)
            elif cls == "quad":
                fr = stream.quad(a)
            else:
                fr = None
                for f in stream.graph(a[3], [a[:3]]):
                    out.append(_bytes(f))
            if fr is not None:
                out.append(_bytes(fr))
            yield
        fr = stream.flow.to_stream_frame()
        if fr is not None:
            out.append(_bytes(fr))
        return b"".join(out).hex()

    return gen


def w_stream_frames(api: str, cls: str, seq, frame_size: int = 2):
    """The integration's stream_frames() over a statement generator, stepped frame by frame."""

    def gen(shared: dict):
        if api == "generic":
            from pyjelly.integrations.generic import serialize as ser  # noqa: PLC0415
        else:
            from pyjelly.integrations.rdflib import serialize as ser  # noqa: PLC0415
        opts = DR.make_options(cls, PRESET, frame_size, True, generalized=False, rdf_star=False)
        stream = DR.g_stream(cls, opts) if api == "generic" else DR.r_stream(cls, opts)
        conv = T.st_to_generic if api == "generic" else T.st_to_rdflib
        out = []
        it = ser.stream_frames(stream, (conv(s) for s in seq))
        yield
        for fr in it:
            out.append(_bytes(fr))
            yield
        if api == "rdflib" and cls == "graph":
            # (this path regroups the quads in an rdflib container: own order; compare content)
            from mc import jspec, jwire  # noqa: PLC0415

            _, per = jspec.decode_frames(jwire.read_delimited(b"".join(out)), finish=False)
            return repr(sorted(jspec.statements(per), key=repr))
        return b"".join(out).hex()

    return gen


def w_parse(api: str, mode: str, data: bytes):
    def gen(shared: dict):
        out = []
        if api == "generic":
            from pyjelly.integrations.generic import parse as p  # noqa: PLC0415
        else:
            from pyjelly.integrations.rdflib import parse as p  # noqa: PLC0415
        if mode == "flat":
            conv = T.ev_from_generic if api == "generic" else T.ev_from_rdflib
            it = p.parse_jelly_flat(io.BytesIO(data))
            yield
            for item in it:
                out.append(repr(conv(item)))
                yield
        else:
            it = p.parse_jelly_grouped(io.BytesIO(data))
            yield
            for sink in it:
                if api == "generic":
                    out.append(repr([T.st_from_generic(s) for s in sink]))
                else:
                    out.append(repr(sorted(DR._graph_events(sink), key=repr)))
                yield
        return out

    return gen


def fixed_stream(cls: str, seq) -> bytes:
    return DR.g_write(seq, cls, DR.make_options(cls, (8, 3, 2), 2, True, generalized=False,
                                                rdf_star=False))


def default_stream(seq) -> bytes:
    """Written with the library's default (large) table sizes, one statement per frame."""
    return DR.g_write(seq, "triple", DR.make_options("triple", (4000, 150, 32), 1, True,
                                                     generalized=False, rdf_star=False))


def with_leading_frames(data: bytes, lead: list) -> bytes:
    """`data` with row-less frames (empty or metadata-only) put before its first frame: a grouped
    parser hands out one (empty) group per such frame, so a parser can be suspended among them."""
    return jwire.write_delimited(lead + jwire.split_delimited(data))


TYPED3 = [(I(f"http://t/s{i}"), I("http://t/p"), L(str(i), None, f"http://t/d{i % 2}"))
          for i in range(4)]
S3PLAIN = [(I(f"http://u/s{i}"), I("http://u/p"), L(str(i))) for i in range(3)]


def step_workloads() -> dict:
    d3 = fixed_stream("triple", S3)
    d4 = fixed_stream("quad", S4)
    dg = fixed_stream("graph", S4)
    w = {
        "ser-generic-triple": w_serialize("generic", "triple", S3),
        "ser-generic-triple-b": w_serialize("generic", "triple", S3B),
        "ser-generic-quad": w_serialize("generic", "quad", S4),
        "ser-generic-graph": w_serialize("generic", "graph", S4B),
        "ser-rdflib-triple": w_serialize("rdflib", "triple", S3),
        "ser-rdflib-quad": w_serialize("rdflib", "quad", S4B),
        "ser-rdflib-graph": w_serialize("rdflib", "graph", S4),
        "ser-generic-named-a": w_serialize("generic", "triple", S3, stream_name="sensor-alpha"),
        "ser-generic-named-b": w_serialize("generic", "triple", S3, stream_name="sensor-beta"),
        "parse-rdflib-noncanonical-1": w_parse("rdflib", "flat", fixed_stream("triple", NC3)),
        "parse-rdflib-noncanonical-2": w_parse("rdflib", "flat", fixed_stream("triple", NC3B)),
        "ser-shared-opts-1": w_serialize("generic", "triple", S3, "shared"),
        "ser-shared-opts-2": w_serialize("generic", "triple", S3B, "shared"),
        # two non-delimited streams (one frame at the very end each)
        "ser-generic-nondelimited-a": w_serialize("generic", "triple", S3, delimited=False),
        "ser-rdflib-nondelimited-b": w_serialize("rdflib", "triple", S3B, delimited=False),
        # GraphStream fed from quad generators through stream_frames(), several frames each
        "frames-rdflib-graph-a": w_stream_frames("rdflib", "graph", S4, 6),
        "frames-rdflib-graph-b": w_stream_frames("rdflib", "graph", S4B + S4[:1], 6),
        # two streams with the default 4000/150/32 tables whose slots hold different strings
        "parse-generic-default-a": w_parse("generic", "flat", default_stream(S3)),
        "parse-rdflib-default-b": w_parse("rdflib", "flat", default_stream(SDB)),
        # a stream with typed literals next to a stream whose datatype table is switched off
        "parse-generic-typed": w_parse("generic", "flat", fixed_stream("triple", TYPED3)),
        "parse-generic-nodt": w_parse("generic", "flat", DR.g_write(
            S3PLAIN, "triple", DR.make_options("triple", (8, 3, 0), 1, True, generalized=False,
                                               rdf_star=False))),
        "parse-generic-flat": w_parse("generic", "flat", d3),
        "parse-generic-flat-g": w_parse("generic", "flat", dg),
        # two GRAPHS streams with identical options but different graphs, same integration
        "parse-rdflib-flat-g1": w_parse("rdflib", "flat", dg),
        "parse-rdflib-flat-g2": w_parse("rdflib", "flat", fixed_stream("graph", S4B + S4[1:])),
        "parse-generic-grouped-g2": w_parse("generic", "grouped",
                                            fixed_stream("graph", S4B + S4[1:])),
        "parse-rdflib-flat": w_parse("rdflib", "flat", d4),
        "parse-generic-grouped": w_parse("generic", "grouped", d4),
        "parse-rdflib-grouped": w_parse("rdflib", "grouped", d3),
        # streams that open with frames without rows (the reader collects them while it looks
        # for the options row): grouped parsers suspended among those frames
        "parse-generic-grouped-lead3": w_parse("generic", "grouped", with_leading_frames(
            d4, [jwire.enc_frame([], {"k": b"1"}), b"", jwire.enc_frame([], {"k": b"3"})])),
        "parse-rdflib-grouped-lead2": w_parse("rdflib", "grouped", with_leading_frames(
            d3, [b"", jwire.enc_frame([], {"m": b"x"})])),
    }
    return w


def run_solo(gen_factory):
    g = gen_factory({})
    steps = 0
    while True:
        try:
            next(g)
            steps += 1
        except StopIteration as e:
            return e.value, steps + 1


def run_merge(factories, order):
    shared: dict = {}
    gens = [f(shared) for f in factories]
    results = [None] * len(gens)
    dead: set = set()
    for i in order:
        if i in dead:
            continue
        try:
            next(gens[i])
        except StopIteration as e:
            results[i] = e.value
        except (NameError, UnboundLocalError, ImportError):
            raise
        except Exception as e:  # noqa: BLE001  (a workload that fails only when interleaved)
            results[i] = f"raised:{type(e).__name__}: {e}"
            dead.add(i)
    return results


def merges(counts):
    items = [i for i, c in enumerate(counts) for _ in range(c)]
    seen = set()
    for p in itertools.permutations(items):
        if p not in seen:
            seen.add(p)
            yield p


def merges_fast(counts):
    """All interleavings (multiset permutations) without generating duplicates."""
    counts = list(counts)
    cur: list[int] = []

    def rec():
        if not any(counts):
            yield tuple(cur)
            return
        for i, c in enumerate(counts):
            if c:
                counts[i] -= 1
                cur.append(i)
                yield from rec()
                cur.pop()
                counts[i] += 1

    yield from rec()


def interleave_case(case: dict) -> list[str]:
    w = step_workloads()
    names = case["workloads"]
    fs = [w[n] for n in names]
    solo = [run_solo(f)[0] for f in fs]
    try:
        got = run_merge(fs, case["order"])
    except Exception as e:  # noqa: BLE001
        return [f"interleaving {case['order']} of {names} raised {type(e).__name__}: {e}"]
    out = []
    for n, a, b in zip(names, solo, got):
        if a != b:
            out.append(f"{n} interleaved with {[x for x in names if x != n]} in step order "
                       f"{case['order']} produces {str(b)[:200]}, solo it produces {str(a)[:200]}")
    return out


def interleave_shard(job) -> dict:
    combos, = job
    acc = pool.Acc()
    w = step_workloads()
    outcomes: set = set()
    for names in combos:
        fs = [w[n] for n in names]
        solos = [run_solo(f) for f in fs]
        counts = [s[1] for s in solos]
        cap = 5 if len(names) == 2 else 3
        counts = [min(c, 99) for c in counts]
        if len(names) == 3 and sum(counts) > 12:
            continue
        for order in merges_fast(counts):
            acc.evals += 1
            if len(set(order[:-1])) > 1:
                acc.nontrivial += 1
            case = {"part": "interleave", "workloads": list(names), "order": list(order)}
            try:
                got = run_merge(fs, order)
            except Exception as e:  # noqa: BLE001
                acc.violation({"part": "interleave", "fail": "raised"},
                              f"interleaving of {names} raised {type(e).__name__}: {e}", case)
                continue
            for n, (a, _), b in zip(names, solos, got):
                outcomes.add((n, str(b)))
                if a != b:
                    acc.violation({"part": "interleave", "workload": n},
                                  f"{n} interleaved with {[x for x in names if x != n]} (step order "
                                  f"{list(order)}) produces {str(b)[:160]}; solo: {str(a)[:160]}",
                                  case)
    acc.extra = {"outcomes": len(outcomes)}
    if combos:
        acc.sample({"part": "interleave", "workloads": list(combos[0])}, cap=1)
    return acc.out()


# ------------------------------------------------------------------ threads
def thread_bodies() -> dict:
    d3 = fixed_stream("triple", S3)
    d4 = fixed_stream("quad", S4)

    def ser(api, cls, seq, entry):
        def body():
            opts = _opts(cls)
            if api == "generic":
                return DR.g_write(seq, cls, opts, entry).hex()
            return DR.r_write(seq, cls, opts, entry).hex()
        return body

    def par(api, mode, data):
        def body():
            read = DR.g_read if api == "generic" else DR.r_read
            return repr(read(data, mode))
        return body

    return {
        "ser-generic-triple": ser("generic", "triple", S3[:2], "flat_to_file"),
        "ser-generic-quad": ser("generic", "quad", S4[:2], "stream_frames_gen"),
        "ser-generic-graph": ser("generic", "graph", S4B, "stream_frames_gen"),
        "ser-rdflib-triple": ser("rdflib", "triple", S3B, "flat_to_file"),
        "ser-rdflib-quad": ser("rdflib", "quad", S4B, "stream_frames_gen"),
        "parse-generic-flat": par("generic", "flat", d3),
        "parse-rdflib-flat": par("rdflib", "flat", d4),
        "parse-generic-grouped": par("generic", "grouped", d4),
    }


def thread_run(names, switches):
    bodies = thread_bodies()
    s = TH.Scheduler([bodies[n] for n in names], env.REPO + "/pyjelly", switches).run()
    return s


def thread_case(case: dict) -> list[str]:
    names = case["workloads"]
    bodies = thread_bodies()
    solo = [bodies[n]() for n in names]
    sw = [tuple(x) for x in case["switches"]]
    a = thread_run(names, sw)
    b = thread_run(names, sw)
    obs_a = (a.results, a.errors)
    obs_b = (b.results, b.errors)
    if obs_a != obs_b:
        raise env.HarnessError(f"schedule {sw} of {names} is not reproducible")
    out = []
    for n, want, got, err in zip(names, solo, a.results, a.errors):
        if err or got != want:
            out.append(f"{n} run concurrently with {[x for x in names if x != n]} under schedule "
                       f"{sw} gives {err or str(got)[:160]}; alone it gives {str(want)[:160]}")
    return out


def thread_shard(job) -> dict:
    pairs, bound, stride = job
    acc = pool.Acc()
    bodies = thread_bodies()
    root = env.REPO + "/pyjelly"
    outcomes: set = set()
    interleaved = 0
    for names in pairs:
        solo = [bodies[n]() for n in names]
        n0 = TH.count_points(bodies[names[0]], root)
        n1 = TH.count_points(bodies[names[1]], root)
        if len(names) == 3:
            n2 = TH.count_points(bodies[names[2]], root)
            scheds = TH.schedules_three([n0, n1, n2], stride)
        else:
            scheds = TH.schedules_two(n0, n1, bound, stride)
        for sw in scheds:
            acc.evals += 1
            s = thread_run(names, sw)
            if s.applied:
                acc.nontrivial += 1
                interleaved += 1
            for n, want, got, err in zip(names, solo, s.results, s.errors):
                outcomes.add((n, str(got), str(err)))
                if err or got != want:
                    case = {"part": "threads", "workloads": list(names),
                            "switches": [list(x) for x in sw]}
                    again = thread_case(case)  # replay twice; must reproduce
                    if again:
                        acc.violation({"part": "threads", "workload": n},
                                      again[0], case)
                    else:
                        raise env.HarnessError(f"schedule {sw} failed once but not on replay")
                    break
        acc.sample({"part": "threads", "workloads": list(names), "points": [n0, n1]}, cap=2)
    acc.extra = {"outcomes": len(outcomes), "interleaved": interleaved}
    return acc.out()


# ---------------------------------------------------------------- histories
def probe_digests(only: str | None = None) -> dict:
    """Digests of the probe workloads; `only` = compute just that one (in a process of its own)."""
    out = _probe_digests_all() if only is None else {}
    if only is not None:
        # build the requested probe lazily by running the generator of all probes up to it
        for k, thunk in _probe_thunks():
            if k == only:
                out[k] = _digest(thunk)
                break
    return out


def _digest(thunk) -> str:
    """A probe that raises has that as its result (it must then raise in a fresh process too)."""
    try:
        return thunk()
    except (NameError, UnboundLocalError, ImportError):
        raise
    except Exception as e:  # noqa: BLE001
        return f"raised:{type(e).__name__}"


def _probe_digests_all() -> dict:
    return {k: _digest(thunk) for k, thunk in _probe_thunks()}


def _probe_thunks():
    """(name, thunk) pairs; nothing pyjelly-related runs before a thunk is called."""
    def ser(api, cls, seq):
        def thunk():
            opts = _opts(cls)
            if cls == "graph":
                g = w_serialize(api, cls, seq)({})
                try:
                    while True:
                        next(g)
                except StopIteration as e:
                    data = bytes.fromhex(e.value)
            else:
                data = (DR.g_write if api == "generic" else DR.r_write)(seq, cls, opts,
                                                                       "stream_frames_gen")
            return hashlib.sha256(data).hexdigest()
        return thunk

    def par(api, cls, seq):
        def thunk():
            read = DR.g_read if api == "generic" else DR.r_read
            return hashlib.sha256(repr(read(fixed_stream(cls, seq), "flat")).encode()).hexdigest()
        return thunk

    def named(api):
        def thunk():
            g = w_serialize(api, "triple", S3, stream_name="probe-name")({})
            try:
                while True:
                    next(g)
            except StopIteration as e:
                return hashlib.sha256(bytes.fromhex(e.value)).hexdigest()
        return thunk

    def nsp(api, cls, seq):
        def thunk():
            binds = [("ex", "http://a/"), ("b", "http://b#"), ("c", "http://c/"), ("", "urn:x"),
                     ("zz", "http://zz/")]
            opts = DR.make_options(cls, (8, 3, 1), 250, True, generalized=False, rdf_star=False,
                                   ns=True)
            if api == "generic":
                data = DR.g_write(seq, cls, opts, "stream_frames_sink", bindings=binds)
            else:
                data = DR.r_write(seq, cls, opts, "graph_serialize_stream", bindings=binds)
            return hashlib.sha256(data).hexdigest()
        return thunk

    for api in ("generic", "rdflib"):
        for cls, seq in (("triple", S3), ("quad", S4), ("graph", S4)):
            yield f"{api}-{cls}", ser(api, cls, seq)
            yield f"{api}-{cls}-parse", par(api, cls, seq)
    def ns_parse(api):
        def thunk():
            # a stream with declarations, written by the reference encoder, read into a sink/graph
            from mc import jrefenc  # noqa: PLC0415
            from mc.explore import choice  # noqa: PLC0415

            data, _, _ = jrefenc.encode(choice.Chooser([]), S3[:2], 1, (8, 3, 1),
                                        namespaces=[("pp", "http://a/"), ("", "urn:x")],
                                        features=frozenset())
            evs = (DR.g_read if api == "generic" else DR.r_read)(data, "to_graph")
            if api == "rdflib":
                evs = sorted(evs, key=repr)
            return hashlib.sha256(repr(evs).encode()).hexdigest()
        return thunk

    def empty_sink():
        from pyjelly.integrations.generic import generic_sink as gs  # noqa: PLC0415

        sink = gs.GenericStatementSink()
        return hashlib.sha256(repr((list(sink.namespaces), len(list(sink)))).encode()).hexdigest()

    def evict(api, cls):
        def thunk():
            # more names and prefixes than the tables hold, several new entries per statement:
            # which entry is evicted when must not depend on the process (hash seed)
            seq = []
            for i in range(14):
                st = (I(f"http://e{i % 6}/s{i}"), I(f"http://e{(i + 1) % 6}/p{i % 4}"),
                      I(f"http://e{(i + 2) % 6}/o{i}"))
                seq.append(st if cls == "triple" else (*st, I(f"http://e{(i + 3) % 6}/g{i % 2}")))
            opts = DR.make_options(cls, (8, 4, 1), 250, True, generalized=False, rdf_star=False)
            data = (DR.g_write if api == "generic" else DR.r_write)(seq, cls, opts,
                                                                   "stream_frames_gen")
            return hashlib.sha256(data).hexdigest()
        return thunk

    for api in ("generic", "rdflib"):
        for cls in ("triple", "quad"):
            yield f"{api}-{cls}-evicting", evict(api, cls)
    def explicit_flow(cls):
        def thunk():
            # the flow is given as an object built without a logical type of its own
            from pyjelly.serialize import flows  # noqa: PLC0415

            flow = flows.GraphsFrameFlow() if cls == "triple" else flows.DatasetsFrameFlow()
            opts = DR.make_options(cls, PRESET, 250, True, 0, generalized=False, rdf_star=False,
                                   flow=flow)
            seq = S3 if cls == "triple" else S4
            return hashlib.sha256(DR.g_write(seq, cls, opts, "stream_frames_gen")).hexdigest()
        return thunk

    def langtags(api):
        def thunk():
            seq = [(I("http://a/x"), I("http://a/p"), L("chat", "en")),
                   (I("http://a/y"), I("http://a/p"), L("colour", "en-GB"))]
            data = (DR.g_write if api == "generic" else DR.r_write)(seq, "triple", _opts("triple"),
                                                                   "flat_to_file")
            return hashlib.sha256(data).hexdigest()
        return thunk

    def default_flat(api, cls, seq):
        def thunk():
            # options left to the entry point (it looks at the first statement)
            data = (DR.g_write if api == "generic" else DR.r_write)(seq, cls, _opts(cls),
                                                                   "flat_to_file_default")
            return hashlib.sha256(data).hexdigest()
        return thunk

    for api in ("generic", "rdflib"):
        yield f"{api}-flat-default-quads", default_flat(api, "quad", S4)
        yield f"{api}-flat-default-triples", default_flat(api, "triple", S3)
    for api in ("generic", "rdflib"):
        yield f"{api}-langtags", langtags(api)
    for cls in ("triple", "quad"):
        yield f"generic-{cls}-explicit-flow", explicit_flow(cls)
    def single_with_metadata():
        # one non-delimited frame that carries several metadata entries (a map field)
        import io as _io  # noqa: PLC0415

        from pyjelly.serialize.flows import ManualFrameFlow  # noqa: PLC0415
        from pyjelly.serialize.ioutils import write_single  # noqa: PLC0415

        opts = DR.make_options("triple", PRESET, 250, False, generalized=False, rdf_star=False)
        opts.flow = ManualFrameFlow(logical_type=opts.logical_type)
        stream = DR.g_stream("triple", opts)
        stream.enroll()
        for st in S3:
            stream.triple(T.st_to_generic(st))
        frame = stream.flow.to_stream_frame()
        for i in range(8):
            frame.metadata[f"key-{i}-{'x' * i}"] = bytes([i]) * (i + 1)
        out = _io.BytesIO()
        write_single(frame, out)
        return hashlib.sha256(out.getvalue()).hexdigest()

    def default_many(api, how):
        def thunk():
            # seven statements through an entry point that makes up its own options: where the
            # frames are cut (statements per frame) must not depend on what ran before
            from mc import jspec, jwire  # noqa: PLC0415

            seq = [(I(f"http://a/s{i}"), I("http://a/p"), L(str(i))) for i in range(7)]
            if how == "flat":
                data = (DR.g_write if api == "generic" else DR.r_write)(
                    seq, "triple", _opts("triple"), "flat_to_file_default")
            elif api == "generic":
                data = DR.g_write(seq, "triple", _opts("triple"), "grouped_to_file_default")
            else:
                out = io.BytesIO()
                DR.r_graph(seq).serialize(destination=out, format="jelly")
                data = out.getvalue()
            _, per = jspec.decode_frames(jwire.read_delimited(data))
            cuts = [sum(1 for e in evs if e[0] == "st") for evs in per]
            return hashlib.sha256(repr((cuts, len(data))).encode()).hexdigest()
        return thunk

    def prefixless(api):
        def thunk():
            # a stream written with the prefix table switched off
            opts = DR.make_options("triple", (8, 0, 2), 250, True, generalized=False,
                                   rdf_star=False)
            data = DR.g_write(S3, "triple", opts, "stream_frames_gen")
            evs = (DR.g_read if api == "generic" else DR.r_read)(data, "flat")
            return hashlib.sha256(repr(evs).encode()).hexdigest()
        return thunk

    def grouped_inferred(api, cls):
        def thunk():
            # several containers, grouped logical type, the flow left to the library
            seq = S3 if cls == "triple" else S4
            opts = DR.make_options(cls, PRESET, 250, True, 3 if cls == "triple" else 4,
                                   generalized=False, rdf_star=False)
            out = io.BytesIO()
            if api == "generic":
                from pyjelly.integrations.generic import serialize as ser  # noqa: PLC0415

                boxes = [DR.g_sink(seq[:2]), DR.g_sink(seq[2:])]
            else:
                from pyjelly.integrations.rdflib import serialize as ser  # noqa: PLC0415

                boxes = [DR.r_graph(seq[:2]), DR.r_graph(seq[2:])]
            ser.grouped_stream_to_file((b for b in boxes), out, options=opts)
            from mc import jspec, jwire  # noqa: PLC0415

            _, per = jspec.decode_frames(jwire.read_delimited(out.getvalue()))
            cuts = [sum(1 for e in evs if e[0] == "st") for evs in per]
            return hashlib.sha256(repr(cuts).encode()).hexdigest()
        return thunk

    for api in ("generic", "rdflib"):
        for cls in ("triple", "quad"):
            yield f"{api}-grouped-inferred-{cls}", grouped_inferred(api, cls)
    for api in ("generic", "rdflib"):
        yield f"{api}-prefixless-parse", prefixless(api)
        yield f"{api}-default-options-flat", default_many(api, "flat")
        yield f"{api}-default-options-container", default_many(api, "container")
    yield "generic-single-frame-with-metadata", single_with_metadata
    yield "generic-empty-sink", empty_sink
    for api in ("generic", "rdflib"):
        yield f"{api}-ns-parse", ns_parse(api)
    for api in ("generic", "rdflib"):
        yield f"{api}-named", named(api)
    for api in ("generic", "rdflib"):
        for cls, seq in (("triple", S3[:1]), ("quad", S4[:1])):
            yield f"{api}-{cls}-namespaces", nsp(api, cls, seq)


def history_actions() -> dict:
    def abandon(api, cls, seq):
        def act():
            stream = (DR.g_stream if api == "generic" else DR.r_stream)(cls, _opts(cls))
            stream.enroll()
            conv = T.st_to_generic if api == "generic" else T.st_to_rdflib
            (stream.triple if cls == "triple" else stream.quad)(conv(seq[0]))
        return act

    def failing(api):
        def act():
            stream = (DR.g_stream if api == "generic" else DR.r_stream)("triple", _opts("triple"))
            stream.enroll()
            try:
                stream.triple((object(), object(), object()))
            except Exception:  # noqa: BLE001
                pass
        return act

    def full(api, cls, seq):
        def act():
            (DR.g_write if api == "generic" else DR.r_write)(seq, cls, _opts(cls),
                                                             "stream_frames_gen")
        return act

    def parse_part(api):
        def act():
            if api == "generic":
                from pyjelly.integrations.generic.parse import parse_jelly_flat  # noqa: PLC0415
            else:
                from pyjelly.integrations.rdflib.parse import parse_jelly_flat  # noqa: PLC0415
            it = parse_jelly_flat(io.BytesIO(fixed_stream("quad", S4B)))
            next(it)
        return act

    def bad_parse():
        try:
            DR.g_read(b"\x0a\x0a\x0a\x01\x02", "flat")
        except Exception:  # noqa: BLE001
            pass

    def named(api):
        def act():
            g = w_serialize(api, "triple", S3, stream_name="other-name")({})
            try:
                while True:
                    next(g)
            except StopIteration:
                pass
        return act

    def ns_grouped(api):
        """Two containers with the same bindings through one grouped stream, declarations on
        (the second round declares IRIs whose entries are already in the tables); the result
        is parsed back into sinks/graphs, which receive the bindings."""
        def act():
            from mc.checks import c14  # noqa: PLC0415

            binds = [("h1", "http://a/"), ("h2", "http://hist/ns#"), ("h3", "http://a/")]
            opts = DR.make_options("triple", (8, 3, 1), 250, True, 3, generalized=False,
                                   rdf_star=False, ns=True)
            out = io.BytesIO()
            if api == "generic":
                from pyjelly.integrations.generic import serialize as ser  # noqa: PLC0415

                items = [DR.g_sink([st], binds) for st in S3B[:2]]
            else:
                from pyjelly.integrations.rdflib import serialize as ser  # noqa: PLC0415

                items = [c14.r_source("triple", [st], binds) for st in S3B[:2]]
            ser.grouped_stream_to_file((x for x in items), out, options=opts)
            (DR.g_read if api == "generic" else DR.r_read)(out.getvalue(), "grouped")
            (DR.g_read if api == "generic" else DR.r_read)(out.getvalue(), "to_graph")
        return act

    def ns_manual(api):
        """namespace_declaration() called by hand between statements, for an IRI in use."""
        def act():
            opts = DR.make_options("triple", (8, 3, 1), 250, True, generalized=False,
                                   rdf_star=False, ns=True)
            stream = (DR.g_stream if api == "generic" else DR.r_stream)("triple", opts)
            stream.enroll()
            conv = T.st_to_generic if api == "generic" else T.st_to_rdflib
            stream.triple(conv(S3B[0]))
            stream.namespace_declaration("m", S3B[0][0][1])
            stream.triple(conv(S3B[1]))
            stream.flow.to_stream_frame()
        return act

    def langcase(api):
        """An unrelated stream whose literals have the same text as the probes' but language tags
        in another letter case (rdflib compares tags case-insensitively)."""
        def act():
            seq = [(I("http://a/x"), I("http://a/p"), L("chat", "EN")),
                   (I("http://a/x"), I("http://a/p"), L("colour", "en-gb"))]
            (DR.g_write if api == "generic" else DR.r_write)(seq, "triple", _opts("triple"),
                                                             "flat_to_file")
        return act

    def rejected_flat():
        """flat_stream_to_frames() asked for FLAT_QUADS but fed triples: refused."""
        from pyjelly.integrations.generic import serialize as gser  # noqa: PLC0415

        opts = DR.make_options("quad", PRESET, 250, True, 2, generalized=False, rdf_star=False)
        try:
            list(gser.flat_stream_to_frames((T.st_to_generic(s) for s in S3), opts))
        except Exception:  # noqa: BLE001
            pass

    def guess_mutate(api):
        """A caller takes the options the library would guess for a container, adjusts them for
        a stream of its own and writes that stream."""
        def act():
            seq = [(I(f"http://h/s{i}"), I("http://h/p"), L(str(i))) for i in range(6)]
            out = io.BytesIO()
            if api == "generic":
                from pyjelly.integrations.generic import serialize as ser  # noqa: PLC0415

                box = DR.g_sink(seq)
            else:
                from pyjelly.integrations.rdflib import serialize as ser  # noqa: PLC0415

                box = DR.r_graph(seq)
            opts = ser.guess_options(box)
            opts.frame_size = 4
            ser.grouped_stream_to_file((b for b in [box]), out, options=opts)
        return act

    def corrupt_prefixless(api):
        """A parser fails on a damaged stream whose prefix table is switched off but which
        refers to prefix 7."""
        def act():
            from mc import jwire  # noqa: PLC0415

            rows = [jwire.mkrow("options", {"physical_type": 1, "max_name_table_size": 8,
                                            "max_prefix_table_size": 0,
                                            "max_datatype_table_size": 2, "version": 1}),
                    jwire.mkrow("name", {"id": 0, "value": "http://a/x"}),
                    jwire.mkrow("triple", {"s": ("iri", 7, 0), "p": ("iri", 0, 1),
                                           "o": ("iri", 0, 1)})]
            data = jwire.write_delimited([jwire.enc_frame(rows)])
            try:
                (DR.g_read if api == "generic" else DR.r_read)(data, "flat")
            except Exception:  # noqa: BLE001
                pass
        return act

    def custom_flow_class():
        """An application defines a frame flow class of its own (a graph per row) and uses it,
        explicitly, for one stream."""
        from pyjelly.serialize import flows  # noqa: PLC0415

        class RowPerFrameFlow(flows.GraphsFrameFlow):
            def frame_from_bounds(self):
                return self.to_stream_frame() if len(self) else None

        class RowPerFrameDatasets(flows.DatasetsFrameFlow):
            def frame_from_bounds(self):
                return self.to_stream_frame() if len(self) else None

        for cls, fl in (("triple", RowPerFrameFlow), ("quad", RowPerFrameDatasets)):
            opts = DR.make_options(cls, PRESET, 250, True, 0, generalized=False, rdf_star=False,
                                   flow=fl())
            DR.g_write(S3B if cls == "triple" else S4B, cls, opts, "stream_frames_gen")

    def subtype_stream():
        """A stream with a logical sub-type is merely constructed."""
        for cls, lt in (("triple", 13), ("quad", 114), ("quad", 14)):
            DR.g_stream(cls, DR.make_options(cls, PRESET, 250, True, lt, generalized=False,
                                             rdf_star=False))

    return {
        "subtype-stream": subtype_stream,
        "custom-flow-class": custom_flow_class,
        "guess-mutate-generic": guess_mutate("generic"),
        "guess-mutate-rdflib": guess_mutate("rdflib"),
        "corrupt-prefixless-generic": corrupt_prefixless("generic"),
        "corrupt-prefixless-rdflib": corrupt_prefixless("rdflib"),
        "rejected-flat-generic": rejected_flat,
        "langcase-generic": langcase("generic"),
        "langcase-rdflib": langcase("rdflib"),
        "ns-grouped-generic": ns_grouped("generic"),
        "ns-grouped-rdflib": ns_grouped("rdflib"),
        "ns-manual-generic": ns_manual("generic"),
        "ns-manual-rdflib": ns_manual("rdflib"),
        "named-generic": named("generic"),
        "named-rdflib": named("rdflib"),
        "abandon-generic-triple": abandon("generic", "triple", S3B),
        "abandon-rdflib-quad": abandon("rdflib", "quad", S4B),
        "fail-generic": failing("generic"),
        "fail-rdflib": failing("rdflib"),
        "full-generic-graph": full("generic", "graph", S4B),
        "full-rdflib-triple": full("rdflib", "triple", S3B),
        "partial-parse-generic": parse_part("generic"),
        "partial-parse-rdflib": parse_part("rdflib"),
        "bad-parse": bad_parse,
    }


def history_shard(job) -> dict:
    depth, lo, hi, fresh = job
    acc = pool.Acc()
    acts = history_actions()
    names = sorted(acts)
    seqs = [p for k in range(1, depth + 1) for p in itertools.product(names, repeat=k)]
    for hist in seqs[lo:hi]:
        acc.evals += 1
        acc.nontrivial += 1
        for a in hist:
            acts[a]()
        got = probe_digests()
        if got != fresh:
            bad = [k for k in got if got[k] != fresh[k]]
            acc.violation({"part": "history"},
                          f"after history {list(hist)} the probe workloads {bad} give different "
                          "results than in a fresh process",
                          {"part": "history", "history": list(hist)})
    acc.sample({"part": "history", "example": list(seqs[lo]) if lo < len(seqs) else []}, cap=1)
    return acc.out()


def fresh_digests(seed: str, only: str | None = None) -> dict:
    envp = dict(os.environ)
    envp["PYTHONHASHSEED"] = seed
    envp["VERIF_C12_PROBE"] = only or "1"
    r = subprocess.run([sys.executable, "-B", "-W", "ignore", "-m", "mc.checks.c12"],
                       capture_output=True, text=True, env=envp, cwd=env.VERIF, check=False)
    if r.returncode != 0:
        raise env.HarnessError(f"probe subprocess failed: {r.stderr[-800:]}")
    import json  # noqa: PLC0415

    return json.loads(r.stdout.strip().splitlines()[-1])


def reuse_cases() -> dict:
    """Objects a caller may hold on to and use again, one use after the other is complete: the
    later use must give what the first one gave (same input), or be refused."""
    seq3 = [(I(f"http://r/s{i % 3}"), I("http://r/p"), L(str(i))) for i in range(5)]
    seq4 = [(*st, I(f"http://r/g{i % 2}")) for i, st in enumerate(seq3)]

    def plugin(cls):
        def thunk():
            from pyjelly.integrations.rdflib.serialize import RDFLibJellySerializer  # noqa: PLC0415

            ser = RDFLibJellySerializer(DR.r_graph(seq3 if cls == "triple" else seq4))
            outs = []
            for _ in range(3):
                out = io.BytesIO()
                ser.serialize(out)
                outs.append(out.getvalue())
            return outs
        return thunk

    def flow_object(api, flow_name, cls):
        def thunk():
            from pyjelly.serialize import flows  # noqa: PLC0415

            fcls = getattr(flows, flow_name)
            flow = fcls(frame_size=2) if issubclass(fcls, flows.BoundedFrameFlow) else fcls()
            outs = []
            for _ in range(3):
                opts = DR.make_options(cls, PRESET, 250, True, generalized=False, rdf_star=False,
                                       flow=flow)
                outs.append((DR.g_write if api == "generic" else DR.r_write)(
                    seq3 if cls == "triple" else seq4, cls, opts, "stream_frames_gen"))
                if len(flow):
                    outs.append(b"rows left in the caller's flow object")
            return outs
        return thunk

    def options_object(api, cls):
        def thunk():
            opts = DR.make_options(cls, PRESET, 2, True, generalized=False, rdf_star=False)
            return [(DR.g_write if api == "generic" else DR.r_write)(
                seq3 if cls == "triple" else seq4, cls, opts, "stream_frames_gen")
                for _ in range(3)]
        return thunk

    def sink_object():
        sink = DR.g_sink(seq3)
        outs = []
        for _ in range(3):
            out = io.BytesIO()
            sink.serialize(out)
            outs.append(out.getvalue())
        return outs

    def graph_object(cls):
        def thunk():
            g = DR.r_graph(seq3 if cls == "triple" else seq4)
            outs = []
            for _ in range(3):
                out = io.BytesIO()
                g.serialize(destination=out, format="jelly")
                outs.append(out.getvalue())
            return outs
        return thunk

    cases = {"generic-sink-object": sink_object}
    for cls in ("triple", "quad"):
        cases[f"rdflib-plugin-object-{cls}"] = plugin(cls)
        cases[f"rdflib-graph-object-{cls}"] = graph_object(cls)
        for api in ("generic", "rdflib"):
            cases[f"{api}-options-object-{cls}"] = options_object(api, cls)
            for fname in ("BoundedFrameFlow", "FlatTriplesFrameFlow" if cls == "triple"
                          else "FlatQuadsFrameFlow", "ManualFrameFlow"):
                cases[f"{api}-flow-object-{fname}-{cls}"] = flow_object(api, fname, cls)
    return cases


def reuse_case(name: str) -> list[str]:
    try:
        outs = reuse_cases()[name]()
    except Exception as e:  # noqa: BLE001
        return [] if not isinstance(e, (NameError, AttributeError, ImportError)) else [
            f"harness: {e!r}"]
    bad = [i for i, o in enumerate(outs) if o != outs[0]]
    if bad:
        return [f"{name}: use {bad[0] + 1} of the same object wrote {len(outs[bad[0]])} bytes, "
                f"the first use {len(outs[0])} bytes (same input)"]
    return []


def reuse_shard(job) -> dict:
    acc = pool.Acc()
    for name in sorted(reuse_cases()):
        acc.evals += 1
        acc.nontrivial += 1
        for msg in reuse_case(name):
            if msg.startswith("harness"):
                raise env.HarnessError(msg)
            acc.violation({"part": "reuse", "object": name.split("-")[1]}, msg,
                          {"part": "reuse", "name": name})
    return acc.out()


def _dispatch(job) -> dict:
    return {"i": interleave_shard, "t": thread_shard, "h": history_shard,
            "r": reuse_shard}[job[0]](job[1])


def run(ctx) -> None:
    DR.ensure_rdflib_plugin()
    wl = sorted(step_workloads())
    pairs = list(itertools.combinations_with_replacement(wl, 2))
    # a workload paired with itself needs two distinct instances: allowed (same factory twice)
    jobs = [("i", (pairs[i::12],)) for i in range(12)]
    if not ctx.quick:
        triples = [c for c in itertools.combinations(wl, 3)]
        jobs += [("i", (triples[i::32],)) for i in range(32)]
    tb = sorted(thread_bodies())
    tpairs = [(a, b) for a in tb for b in tb]
    bound = 1 if ctx.quick else 2
    if ctx.quick:
        jobs += [("t", (tpairs[i::16], 1, 1)) for i in range(16)]
    else:
        jobs += [("t", (tpairs[i::32], 1, 1)) for i in range(32)]
        core = [(a, b) for a in tb[:5] for b in tb[:5]]
        jobs += [("t", ([p], 2, 3)) for p in core]
        # three threads, one preemption anywhere (every third point)
        tri = [t for t in itertools.permutations([n for n in tb if n.startswith("ser")], 3)]
        jobs += [("t", ([t], 1, 3)) for t in tri]
    seeds = ["0", "1", "2", "3", "4", "42", str(2**32 - 1), "random", "random"]
    fresh = fresh_digests("0")
    # every probe also alone in a process of its own: the result must not depend on what ran
    # before it in the same process (process-lifetime caches keyed too coarsely)
    from concurrent.futures import ThreadPoolExecutor  # noqa: PLC0415

    names = list(fresh)
    with ThreadPoolExecutor(8) as ex:
        alone = list(ex.map(lambda k: fresh_digests("0", k), names))
    for k, d in zip(names, alone):
        if d.get(k) != fresh[k]:
            ctx.violation({"part": "isolated-process", "probe": k},
                          f"probe workload {k} gives different bytes/results when it runs after "
                          "the other probes in one process than alone in a fresh process",
                          {"part": "isolated", "probe": k})
    by_seed = {}
    for s in seeds[1:] if ctx.quick else seeds:
        by_seed[s + ("#" + str(len(by_seed)) if s == "random" else "")] = fresh_digests(s)
    for s, d in by_seed.items():
        if d != fresh:
            bad = [k for k in d if d[k] != fresh[k]]
            ctx.violation({"part": "hashseed"},
                          f"PYTHONHASHSEED={s}: workloads {bad} produce different bytes/results "
                          "than under seed 0", {"part": "hashseed", "seed": s.split("#")[0]})
    nh = len(history_actions())
    depth = 2 if ctx.quick else 3
    total = sum(nh**k for k in range(1, depth + 1))
    jobs += [("h", (depth, lo, hi, fresh)) for lo, hi in pool.split_range(total, 16)]
    jobs.append(("r", ()))
    merged = pool.merge(pool.pmap(_dispatch, jobs))
    ctx.add(merged)
    inter = sum(e.get("interleaved", 0) for e in merged["extras"])
    ctx.coverage.update(
        states=merged["evals"],
        transitions=merged["evals"],
        traces_validated_against_impl=merged["evals"],
        evaluations=merged["evals"] + len(by_seed),
        distinct_nontrivial=merged["nontrivial"],
        schedules_with_a_real_preemption_inside_pyjelly=inter,
        preemption_bound_completed=bound,
        hash_seeds=list(by_seed),
        history_depth=depth,
        distinct_observed_outcomes=sum(e.get("outcomes", 0) for e in merged["extras"]),
        exhaustive=True,
        samples=merged["samples"],
        rule=(
            "(a) every merge of the step sequences (statement-level serializer steps, parser "
            f"generator steps) of every pair (thorough: also triple) of {len(wl)} workloads incl. two "
            "streams sharing one SerializerOptions; (b) every ordered pair of 8 thread workloads "
            f"under every schedule with <= {bound} preemption(s) at line granularity inside "
            "pyjelly (thorough: 2-preemption schedules with stride 3 on the 5 serializer workloads and "
            "three-thread schedules with one preemption), failing "
            f"schedules replayed twice; (c) every history of <= {depth} prior actions (abandon, "
            "fail, full run, partial parse, bad parse) before the probes; (d) fresh processes under "
            "PYTHONHASHSEED values; states = executions; oracle: identical to solo fresh run"
        ),
    )
    ctx.assumptions += ["hash seeds are a finite list; C extension code (protobuf, OrderedDict) "
                        "is atomic under the GIL and not split by the scheduler"]


def replay(case: dict) -> list:
    DR.ensure_rdflib_plugin()
    if case["part"] == "interleave":
        return interleave_case(case)
    if case["part"] == "threads":
        return thread_case(case)
    if case["part"] == "reuse":
        return reuse_case(case["name"])
    if case["part"] == "isolated":
        k = case["probe"]
        return [] if fresh_digests("0", k).get(k) == fresh_digests("0")[k] else [
            f"probe {k} depends on what ran before it in the process"]
    if case["part"] == "history":
        fresh = fresh_digests("0")
        acts = history_actions()
        for a in case["history"]:
            acts[a]()
        got = probe_digests()
        return [] if got == fresh else [f"probe differs after {case['history']}"]
    d = fresh_digests(case["seed"])
    return [] if d == fresh_digests("0") else [f"seed {case['seed']} differs"]


if __name__ == "__main__" and os.environ.get("VERIF_C12_PROBE"):
    import json

    sys.path.insert(0, env.REPO)
    env.assert_repo_pyjelly()
    DR.ensure_rdflib_plugin()
    which = os.environ["VERIF_C12_PROBE"]
    print(json.dumps(probe_digests(None if which == "1" else which)))
