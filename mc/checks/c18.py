"""C18 - a statement too big for the lookup tables is refused, not corrupted.

Every statement of the pressure alphabets x every preset in which some enabled
table is smaller than the statement's distinct entries x every history of
length <= H x {Triple,Quad,Graph}Stream (generic; rdflib for the prefix case).
Oracle: serialization raises, or the reference decoder reads exactly the input.
"""
from __future__ import annotations

import itertools

from mc import alphabets as AL
from mc import drivers as DR
from mc import jspec, jwire, pool
from mc import terms as T
from mc.terms import B, DEFAULT, I, L

LEVEL = "exploration"

P = ["http://p1/", "http://p2/", "http://p3#", "http://p1/q/"]
# (the last one has no '/' or '#': its prefix is the empty string, which is an entry of its own
#  once any other prefix has been used)
IRIS = [I(P[0] + "a"), I(P[1] + "a"), I(P[2] + "b"), I(P[3] + "b"), I(P[0] + "b"), I("noseparator")]
DTS = ["http://p1/a", "http://d/2", "http://d/3"]
LITS = [L("x", None, d) for d in DTS]
TERMS = IRIS + LITS
HISTORY = [
    (I(P[1] + "h"), I(P[0] + "h"), L("h", None, DTS[1])),
    (I(P[2] + "a"), I(P[2] + "a"), I(P[2] + "a")),
    (I(P[0] + "a"), I(P[1] + "a"), L("x", None, DTS[0])),
]
GRAPH_NAMES = [DEFAULT, I(P[3] + "g"), L("g", None, DTS[2])]


def flat_statements() -> list:
    return list(itertools.product(TERMS, repeat=3))


def nested_statement(k: int) -> tuple:
    """Quoted triples nested to depth 2 with 27 IRI leaves over k distinct names."""
    names = [I(f"http://p1/n{i % k}") for i in range(27)]
    it = iter(names)

    def q1():
        return T.T(next(it), next(it), next(it))

    def q2():
        return T.T(q1(), q1(), q1())

    return (q2(), q2(), q2())


def pressure_presets(st, rdflib: bool) -> list:
    """Presets in which some enabled table is smaller than the statement needs."""
    out = []
    n1, p1, d1 = AL.needs(st, True)
    for names, pf, dt in itertools.product((8, 12, 20, 26), (0, 1, 2, 3), (0, 1, 2, 3)):
        n, p, d = AL.needs(st, pf > 0)
        if d and dt == 0:
            continue  # typed literal with a disabled table is C20's rejection, not C18
        over = n > names or (pf and p > pf) or (dt and d > dt)
        if not over:
            continue
        if names != 8 and n <= 8:
            continue  # name-table variations only matter for name pressure
        out.append((names, pf, dt))
    return out


def is_rdf11(st) -> bool:
    return T.is_rdf11(st)


def cases_for(tier_quick: bool):
    """Yield (statement, arity-3) pressure statements."""
    sts = flat_statements()
    nested = [nested_statement(k) for k in (range(9, 28, 3) if tier_quick else range(9, 28))]
    return sts, nested


def run_case(case) -> tuple[str, str] | None:
    """None = property holds; else (fail kind, message)."""
    api = case["api"]
    cls = case["cls"]
    preset = tuple(case["preset"])
    seq = [T.from_json(s) for s in case["seq"]]
    try:
        opts = DR.make_options(cls, preset, case.get("frame_size", 250), True)
        if api == "generic":
            data = DR.g_write(seq, cls, opts, "stream_frames_gen")
        else:
            data = DR.r_write(seq, cls, opts, "stream_frames_gen")
    except Exception:  # noqa: BLE001
        return None  # refused: allowed
    expect = T.norm_seq(seq)
    try:
        dec, per = jspec.decode_frames(jwire.read_delimited(data))
    except (jspec.SpecViolation, jwire.WireError) as e:
        return "undecodable", f"wrote a stream the reference decoder rejects: {e}"
    got = [T.norm_st(s) for s in jspec.statements(per)]
    if api == "rdflib" and cls == "graph":
        # this rdflib path regroups the quads into a Dataset: rdflib's order, not pyjelly's
        got, expect = sorted(set(got), key=repr), sorted(set(expect), key=repr)
    if got != expect:
        bad = next((i for i, (a, b) in enumerate(zip(got, expect)) if a != b), len(got))
        return "corrupted", (f"wrote a stream that decodes to different data (statement {bad}): "
                             f"{got[bad] if bad < len(got) else None} instead of {expect[bad]}")
    return None


def overflow_tables(st, preset) -> list[str]:
    names, pf, dt = preset
    n, p, d = AL.needs(st, pf > 0)
    out = []
    if n > names:
        out.append("name")
    if pf and p > pf:
        out.append("prefix")
    if dt and d > dt:
        out.append("datatype")
    return out


def shard(job) -> dict:
    kind, lo, hi, hist_len, quick = job
    acc = pool.Acc()
    sts, nested = cases_for(quick)
    pool_sts = sts if kind == "flat" else nested
    for st in pool_sts[lo:hi]:
        for api in ("generic", "rdflib"):
            if api == "rdflib" and not is_rdf11(st):
                continue
            any_preset = False
            for cls in DR.CLASSES:
                gs = [DEFAULT] if cls == "triple" else GRAPH_NAMES
                for g in gs:
                    if api == "rdflib" and g[0] == "L":
                        continue
                    full = st if cls == "triple" else (*st, g)
                    # presets in which the statement *including its graph name* overflows a table
                    for preset in pressure_presets(full, api == "rdflib"):
                        any_preset = True
                        hists = [()] + [(h,) for h in HISTORY]
                        if hist_len >= 2:
                            hists += list(itertools.product(HISTORY, repeat=2))
                        for hist in hists:
                            if any(not AL.fits(h, preset) for h in hist):
                                continue
                            seq = [*hist, st]
                            if cls != "triple":
                                seq = [(*s, g) for s in seq]
                            if len(seq) > 1 and not all(AL.fits(x, preset) for x in seq[:-1]):
                                continue
                            case = {"api": api, "cls": cls, "preset": list(preset),
                                    "seq": [list(s) for s in seq]}
                            acc.evals += 1
                            acc.nontrivial += 1
                            r = run_case(case)
                            if r is None:
                                acc.counters["ok_or_refused"] += 1
                                continue
                            tables = overflow_tables(seq[-1], preset)
                            acc.violation(
                                {"fail": r[0], "tables": "+".join(tables)},
                                f"{r[1]}; overflowing table(s) {tables} preset={preset} "
                                f"api={api} cls={cls} statement={seq[-1]}",
                                case)
                            if acc.evals % 5000 == 1:
                                acc.sample(case, cap=2)
            if not any_preset:
                acc.counters["fits_everywhere"] += 1
    if not acc.samples and acc.evals:
        acc.sample({"kind": kind, "range": [lo, hi]})
    return acc.out()


def run(ctx) -> None:
    sts, nested = cases_for(ctx.quick)
    hist_len = 1 if ctx.quick else 2
    jobs = [("flat", lo, hi, hist_len, ctx.quick) for lo, hi in pool.split_range(len(sts), 48)]
    jobs += [("nested", lo, hi, hist_len, ctx.quick)
             for lo, hi in pool.split_range(len(nested), len(nested))]
    merged = pool.merge(pool.pmap(shard, jobs))
    ctx.add(merged)
    ctx.coverage.update(
        evaluations=merged["evals"],
        distinct_nontrivial=merged["nontrivial"],
        exhaustive=True,
        statements=len(sts) + len(nested),
        ok_or_refused=merged["counters"].get("ok_or_refused", 0),
        samples=merged["samples"] or [{"statement": sts[1]}],
        rule=(
            "all 9^3 statements over 6 IRIs (4 prefixes + the empty prefix) + 3 typed literals, and quoted triples "
            "nested to depth 2 with 27 IRI leaves over k=9..27 names, x every preset "
            "(names{8,12,20,26} x prefixes{0..3} x datatypes{0..3}) in which an enabled table is "
            f"smaller than the statement needs x histories of length<={hist_len} x three stream "
            "classes x graph names; every case is non-trivial by construction (a table overflows)"
        ),
    )


def replay(case: dict) -> list:
    r = run_case(case)
    return [r[1]] if r else []
