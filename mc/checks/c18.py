"""C18 - a statement too big for the lookup tables is refused, not corrupted.

Every statement of the pressure alphabets x every preset in which some enabled
table is smaller than the statement's distinct entries x every history of
length <= H x {Triple,Quad,Graph}Stream (generic; rdflib for the prefix case).
Oracle: serialization raises, or the reference decoder reads exactly the input.
"""
from __future__ import annotations

import itertools

from mc import alphabets as AL
from mc import drivers as DR
from mc import jspec, jwire, pool
from mc import terms as T
from mc.terms import B, DEFAULT, I, L

LEVEL = "exploration"

P = ["http://p1/", "http://p2/", "http://p3#", "http://p1/q/"]
# (the last one has no '/' or '#': its prefix is the empty string, which is an entry of its own
#  once any other prefix has been used)
IRIS = [I(P[0] + "a"), I(P[1] + "a"), I(P[2] + "b"), I(P[3] + "b"), I(P[0] + "b"), I("noseparator")]
DTS = ["http://p1/a", "http://d/2", "http://d/3"]
LITS = [L("x", None, d) for d in DTS]
TERMS = IRIS + LITS
HISTORY = [
    (I(P[1] + "h"), I(P[0] + "h"), L("h", None, DTS[1])),
    (I(P[2] + "a"), I(P[2] + "a"), I(P[2] + "a")),
    (I(P[0] + "a"), I(P[1] + "a"), L("x", None, DTS[0])),
]
GRAPH_NAMES = [DEFAULT, I(P[3] + "g"), L("g", None, DTS[2])]


def long_statements() -> list:
    """The same competition for table slots with prefixes, names and datatypes of 128+ characters
    (keys the encoder may treat differently from short ones)."""
    w = "w" * 140
    pl = [f"http://{c}.example/{w}/" for c in "abc"]
    iris = [I(pl[0] + "n" + w), I(pl[1] + "n" + w), I(pl[2] + "m" + w), I(pl[0] + "m" + w)]
    lits = [L("x", None, f"http://d.example/{w}/{k}") for k in (1, 2)]
    return list(itertools.product(iris + lits, repeat=3))


def flat_statements() -> list:
    return list(itertools.product(TERMS, repeat=3)) + mixed_statements() + long_statements()


def mixed_statements() -> list:
    """A quoted triple over four IRIs (three prefixes) next to ordinary terms: the quoted triple
    and the rest of the row compete for the same tables."""
    out = []
    for q in itertools.product(IRIS[:4], repeat=3):
        qt = T.T(*q)
        for a in (IRIS[0], IRIS[1], IRIS[5]):
            for b in (IRIS[1], IRIS[4]):
                out.append((a, b, qt))
                out.append((qt, b, a))
    return out


def nested_statement(k: int) -> tuple:
    """Quoted triples nested to depth 2 with 27 IRI leaves over k distinct names."""
    names = [I(f"http://p1/n{i % k}") for i in range(27)]
    it = iter(names)

    def q1():
        return T.T(next(it), next(it), next(it))

    def q2():
        return T.T(q1(), q1(), q1())

    return (q2(), q2(), q2())


def pressure_presets(st, rdflib: bool) -> list:
    """Presets in which some enabled table is smaller than the statement needs."""
    out = []
    n1, p1, d1 = AL.needs(st, True)
    for names, pf, dt in itertools.product((8, 12, 20, 26), (0, 1, 2, 3), (0, 1, 2, 3)):
        n, p, d = AL.needs(st, pf > 0)
        if d and dt == 0:
            continue  # typed literal with a disabled table is C20's rejection, not C18
        over = n > names or (pf and p > pf) or (dt and d > dt)
        if not over:
            continue
        if names != 8 and n <= 8:
            continue  # name-table variations only matter for name pressure
        out.append((names, pf, dt))
    return out


def is_rdf11(st) -> bool:
    return T.is_rdf11(st)


def cases_for(tier_quick: bool):
    """Yield (statement, arity-3) pressure statements."""
    sts = flat_statements()
    nested = [nested_statement(k) for k in (range(9, 28, 3) if tier_quick else range(9, 28))]
    return sts, nested


def run_case(case) -> tuple[str, str] | None:
    """None = property holds; else (fail kind, message)."""
    api = case["api"]
    cls = case["cls"]
    preset = tuple(case["preset"])
    seq = [T.from_json(s) for s in case["seq"]]
    if case.get("continue"):
        return run_continue(case, seq)
    declared = case.get("declared")
    try:
        opts = DR.make_options(cls, preset, case.get("frame_size", 250), True,
                               generalized=case.get("generalized", True), ns=bool(declared))
        if declared:
            # a container whose namespace bindings are declared in the stream first
            binds = [("d", "http://declared.example/ns#")]
            if api == "generic":
                data = DR.g_write(seq, cls, opts, "stream_frames_sink", bindings=binds)
            else:
                data = DR.r_write(seq, cls, opts, "graph_serialize_stream", bindings=binds)
        elif api == "generic":
            data = DR.g_write(seq, cls, opts, "stream_frames_gen")
        else:
            data = DR.r_write(seq, cls, opts, "stream_frames_gen")
    except Exception:  # noqa: BLE001
        return None  # refused: allowed
    expect = T.norm_seq(seq)
    try:
        dec, per = jspec.decode_frames(jwire.read_delimited(data))
    except (jspec.SpecViolation, jwire.WireError) as e:
        return "undecodable", f"wrote a stream the reference decoder rejects: {e}"
    got = [T.norm_st(s) for s in jspec.statements(per)]
    if api == "rdflib" and (cls == "graph" or declared):
        # this rdflib path regroups the quads into a Dataset: rdflib's order, not pyjelly's
        got, expect = sorted(set(got), key=repr), sorted(set(expect), key=repr)
    if got != expect:
        bad = next((i for i, (a, b) in enumerate(zip(got, expect)) if a != b), len(got))
        return "corrupted", (f"wrote a stream that decodes to different data (statement {bad}): "
                             f"{got[bad] if bad < len(got) else None} instead of {expect[bad]}")
    return None


def run_continue(case, seq):
    """A producer that feeds one stream statement by statement, skips a statement that is refused
    and carries on: what ends up in the file must decode to exactly the accepted statements."""
    import io  # noqa: PLC0415

    from pyjelly.serialize.ioutils import write_delimited  # noqa: PLC0415

    api, cls = case["api"], case["cls"]
    opts = DR.make_options(cls, tuple(case["preset"]), 250, True)
    stream = DR.g_stream(cls, opts) if api == "generic" else DR.r_stream(cls, opts)
    conv = T.st_to_generic if api == "generic" else T.st_to_rdflib
    out = io.BytesIO()
    stream.enroll()
    accepted = []
    for st in seq:
        try:
            fr = stream.triple(conv(st)) if cls == "triple" else stream.quad(conv(st))
        except Exception:  # noqa: BLE001
            continue
        accepted.append(T.norm_st(st))
        if fr is not None:
            write_delimited(fr, out)
    fr = stream.flow.to_stream_frame()
    if fr is not None:
        write_delimited(fr, out)
    try:
        _, per = jspec.decode_frames(jwire.read_delimited(out.getvalue()))
    except (jspec.SpecViolation, jwire.WireError) as e:
        return "undecodable", (f"after a refused statement the producer carried on and the file "
                               f"is rejected by the reference decoder: {e}")
    got = [T.norm_st(s) for s in jspec.statements(per)]
    if got != accepted:
        return "corrupted", (f"after a refused statement the producer carried on: the file decodes "
                             f"to {got}, the accepted statements were {accepted}")
    return None


def starlit_statements() -> list:
    """Regular (non-generalized) RDF-star statements with several typed literals, all of them
    objects of quoted triples."""
    a, b = IRIS[0], IRIS[4]
    out = []
    for d1, d2, d3 in itertools.product(range(3), repeat=3):
        out.append((T.T(a, b, LITS[d1]), b, T.T(a, b, T.T(b, a, LITS[d2]))))
        out.append((a, b, T.T(T.T(a, b, LITS[d1]), a, T.T(b, b, T.T(a, a, LITS[d3])))))
    return out


def overflow_tables(st, preset) -> list[str]:
    names, pf, dt = preset
    n, p, d = AL.needs(st, pf > 0)
    out = []
    if n > names:
        out.append("name")
    if pf and p > pf:
        out.append("prefix")
    if dt and d > dt:
        out.append("datatype")
    return out


def shard(job) -> dict:
    kind, lo, hi, hist_len, quick = job
    if kind == "starlit":
        return starlit_shard(job)
    acc = pool.Acc()
    sts, nested = cases_for(quick)
    pool_sts = sts if kind == "flat" else nested
    for st in pool_sts[lo:hi]:
        for api in ("generic", "rdflib"):
            if api == "rdflib" and not is_rdf11(st):
                continue
            any_preset = False
            for cls in DR.CLASSES:
                gs = [DEFAULT] if cls == "triple" else GRAPH_NAMES
                for g in gs:
                    if api == "rdflib" and g[0] == "L":
                        continue
                    full = st if cls == "triple" else (*st, g)
                    # presets in which the statement *including its graph name* overflows a table
                    for preset in pressure_presets(full, api == "rdflib"):
                        any_preset = True
                        hists = [()] + [(h,) for h in HISTORY]
                        if hist_len >= 2:
                            hists += list(itertools.product(HISTORY, repeat=2))
                        for hist in hists:
                            if any(not AL.fits(h, preset) for h in hist):
                                continue
                            seq = [*hist, st]
                            if cls != "triple":
                                seq = [(*s, g) for s in seq]
                            if len(seq) > 1 and not all(AL.fits(x, preset) for x in seq[:-1]):
                                continue
                            case = {"api": api, "cls": cls, "preset": list(preset),
                                    "seq": [list(s) for s in seq]}
                            if cls != "graph" and not hist and kind == "flat":
                                # catch-and-continue: a history, the overflowing statement, then
                                # one that shares its subject and predicate
                                for h in HISTORY[:2]:
                                    follow = (st[0], st[1], L("z"))
                                    s3 = [h, st, follow]
                                    if cls != "triple":
                                        s3 = [(*x, g) for x in s3]
                                    if not (AL.fits(s3[0], preset) and AL.fits(s3[2], preset)):
                                        continue
                                    c3 = {"api": api, "cls": cls, "preset": list(preset),
                                          "seq": [list(x) for x in s3], "continue": True}
                                    acc.evals += 1
                                    acc.nontrivial += 1
                                    r3 = run_case(c3)
                                    if r3 is None:
                                        acc.counters["ok_or_refused"] += 1
                                    else:
                                        acc.violation({"fail": r3[0], "continue": True},
                                                      f"{r3[1]} preset={preset} api={api} cls={cls}",
                                                      c3)
                            if not hist and cls != "graph" and kind == "flat":
                                cd = {**case, "declared": True}
                                acc.evals += 1
                                acc.nontrivial += 1
                                rd = run_case(cd)
                                if rd is not None:
                                    acc.violation({"fail": rd[0], "declared": True},
                                                  f"{rd[1]} (bindings declared first) "
                                                  f"preset={preset} api={api} cls={cls}", cd)
                            acc.evals += 1
                            acc.nontrivial += 1
                            r = run_case(case)
                            if r is None:
                                acc.counters["ok_or_refused"] += 1
                                continue
                            tables = overflow_tables(seq[-1], preset)
                            acc.violation(
                                {"fail": r[0], "tables": "+".join(tables)},
                                f"{r[1]}; overflowing table(s) {tables} preset={preset} "
                                f"api={api} cls={cls} statement={seq[-1]}",
                                case)
                            if acc.evals % 5000 == 1:
                                acc.sample(case, cap=2)
            if not any_preset:
                acc.counters["fits_everywhere"] += 1
    if not acc.samples and acc.evals:
        acc.sample({"kind": kind, "range": [lo, hi]})
    return acc.out()


def starlit_shard(job) -> dict:
    acc = pool.Acc()
    for st in starlit_statements():
        for cls in ("triple", "quad"):
            full = st if cls == "triple" else (*st, IRIS[1])
            for dt in (1, 2):
                n, p, d = AL.needs(full, True)
                if d <= dt:
                    continue
                for generalized in (True, False):
                    for hist in ([], [HISTORY[2]]):
                        seq = [*hist, st]
                        if cls != "triple":
                            seq = [(*x, IRIS[1]) for x in seq]
                        case = {"api": "generic", "cls": cls, "preset": [8, 3, dt],
                                "seq": [list(x) for x in seq], "generalized": generalized}
                        acc.evals += 1
                        acc.nontrivial += 1
                        r = run_case(case)
                        if r is None:
                            acc.counters["ok_or_refused"] += 1
                            continue
                        acc.violation({"fail": r[0], "tables": "datatype", "starlit": True,
                                       "generalized": generalized},
                                      f"{r[1]}; regular RDF-star statement with typed literals, "
                                      f"datatype table {dt}, generalized_statements={generalized}",
                                      case)
    return acc.out()


def all_jobs(quick: bool, hist_len: int) -> list:
    sts, nested = cases_for(quick)
    jobs = [("flat", lo, hi, hist_len, quick) for lo, hi in pool.split_range(len(sts), 48)]
    jobs += [("nested", lo, hi, hist_len, quick)
             for lo, hi in pool.split_range(len(nested), len(nested))]
    jobs.append(("starlit", 0, 0, 0, quick))
    return jobs


def optimised_process() -> dict:
    """The quick-tier space once more in an interpreter started with PYTHONOPTIMIZE=1
    (python -O): refusing an over-sized statement must not hinge on `assert` statements."""
    import json  # noqa: PLC0415
    import os  # noqa: PLC0415
    import subprocess  # noqa: PLC0415
    import sys  # noqa: PLC0415

    from mc import env  # noqa: PLC0415

    envp = dict(os.environ)
    envp["PYTHONOPTIMIZE"] = "1"
    envp["VERIF_C18_OPT"] = "1"
    r = subprocess.run([sys.executable, "-B", "-W", "ignore", "-m", "mc.checks.c18"],
                       capture_output=True, text=True, env=envp, cwd=env.VERIF, check=False)
    if r.returncode != 0:
        raise env.HarnessError(f"optimised subprocess failed: {r.stderr[-800:]}")
    out = json.loads(r.stdout.strip().splitlines()[-1])
    if out["optimize"] < 1:
        raise env.HarnessError("the subprocess did not run in optimised mode")
    return out


def run(ctx) -> None:
    hist_len = 1 if ctx.quick else 2
    sts, nested = cases_for(ctx.quick)
    jobs = all_jobs(ctx.quick, hist_len)
    merged = pool.merge(pool.pmap(shard, jobs))
    ctx.add(merged)
    opt = optimised_process()
    for v in opt["violations"]:
        ctx.violation({**v["sig"], "mode": "python -O"},
                      f"under python -O (PYTHONOPTIMIZE=1): {v['what']}",
                      {**v["case"], "optimised": True})
    ctx.coverage["cases_under_python_O"] = opt["evals"]
    ctx.coverage.update(
        evaluations=merged["evals"],
        distinct_nontrivial=merged["nontrivial"],
        exhaustive=True,
        statements=len(sts) + len(nested) + len(starlit_statements()),
        ok_or_refused=merged["counters"].get("ok_or_refused", 0),
        samples=merged["samples"] or [{"statement": sts[1]}],
        rule=(
            "all 9^3 statements (plus 768 with a quoted triple as subject or object) over 6 IRIs (4 prefixes + the empty prefix) + 3 typed literals, and quoted triples "
            "nested to depth 2 with 27 IRI leaves over k=9..27 names, x every preset "
            "(names{8,12,20,26} x prefixes{0..3} x datatypes{0..3}) in which an enabled table is "
            f"smaller than the statement needs x histories of length<={hist_len} x three stream "
            "classes x graph names; regular RDF-star statements with typed literals inside quoted "
            "triples x generalized_statements on/off; catch-and-continue producers (a history, the "
            "overflowing statement, a statement sharing its subject and predicate); every case is "
            "non-trivial by construction (a table overflows)"
        ),
    )


def replay(case: dict) -> list:
    if case.get("optimised"):
        key = {k: v for k, v in case.items() if k != "optimised"}
        return [v["what"] for v in optimised_process()["violations"] if v["case"] == key]
    r = run_case(case)
    return [r[1]] if r else []


if __name__ == "__main__":
    import json as _json
    import os as _os
    import sys as _sys

    if _os.environ.get("VERIF_C18_OPT"):
        from mc import env as _env

        _env.pin()
        _env.assert_repo_pyjelly()
        DR.ensure_rdflib_plugin()
        _m = pool.merge(pool.pmap(shard, all_jobs(True, 0)))
        print(_json.dumps({"optimize": _sys.flags.optimize, "evals": _m["evals"],
                           "violations": _m["violations"][:50]}))
