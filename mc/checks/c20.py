"""C20 - a rejected statement never poisons the rest of the stream.

A catch-and-continue caller drives a stream statement by statement; one
statement of the sequence is made unencodable (cause x slot).  Every sequence
x position x slot x cause x stream class x integration is executed.
"""
from __future__ import annotations

import io

from mc import alphabets as AL
from mc import drivers as DR
from mc import jspec, jwire, pool
from mc import terms as T
from mc.terms import L

LEVEL = "fault_enumeration"

BAD_OBJ = ("X",)  # converted to a plain object(): unsupported term type
BAD_DT = L("x", None, "http://a/dt")  # typed literal (with datatype table size 0)
# an IRI in a namespace of its own whose text cannot be encoded (lone surrogate): it is rejected
# by the protobuf layer, i.e. only after the lookup tables have seen it
BAD_STR = ("I", "http://bad\ud800.example/x")
SCOPE = "repeat"
CAUSES = ("unsupported", "datatype_disabled", "short_tuple", "unencodable_string")
NS_AFTER = ("http://a/x", "http://a/", "x")  # IRIs whose entries the alphabet's statements use


def mutate(st, slot: int, cause: str, nested: bool):
    """Return the raw API statement (list of API terms) made unencodable."""
    if cause == "short_tuple":
        return tuple(st[:slot])  # tuple cut before `slot`
    bad = {"unsupported": BAD_OBJ, "unencodable_string": BAD_STR}.get(cause, BAD_DT)
    terms = list(st)
    if nested:
        inner = [terms[0], terms[1], terms[2]][:3]
        inner = [t if t[0] != "T" else T.I("http://a/x") for t in inner]
        q = ["T", *inner]
        q[1 + slot] = bad
        terms[0] = tuple(q)
    else:
        terms[slot] = bad
    return tuple(terms)


def to_api(st, api: str):
    conv = T.to_generic if api == "generic" else T.to_rdflib
    if api == "generic":
        from pyjelly.integrations.generic import generic_sink as gs  # noqa: PLC0415

        def conv(t):  # noqa: F811
            if t[0] == "T":
                return gs.Triple(*(conv(x) for x in t[1:]))
            return T.to_generic(t)

    return tuple(conv(t) for t in st)


def drive(case: dict):
    """Run the catch-and-continue caller.  Returns (bytes, accepted, rejected_ok, later_all_raise)."""
    api, cls = case["api"], case["cls"]
    preset = tuple(case["preset"])
    arity = 3 if cls == "triple" else 4
    alpha = AL.alphabet(SCOPE, arity)
    seq = [alpha[i] for i in case["seq"]]
    pos, slot, cause, nested = case["pos"], case["slot"], case["cause"], case["nested"]
    ns_after = case.get("ns_after")
    opts = DR.make_options(cls, preset, case["frame_size"], case.get("delimited", True),
                           case.get("logical"), generalized=True, ns=bool(ns_after))
    stream = DR.g_stream(cls, opts) if api == "generic" else DR.r_stream(cls, opts)
    out = io.BytesIO()
    from pyjelly.serialize.ioutils import write_delimited  # noqa: PLC0415

    accepted: list = []
    raised_at: list = []
    stream.enroll()

    def emit(frame) -> None:
        if frame is not None:
            write_delimited(frame, out)

    def send(i: int, st_api, neutral) -> None:
        # (statements may be handed over as one-shot iterators of terms)
        one_shot = iter if case.get("as_iter") else (lambda x: x)
        try:
            if cls == "triple":
                emit(stream.triple(one_shot(st_api)))
            elif cls == "quad":
                emit(stream.quad(one_shot(st_api)))
            else:
                g = st_api[3] if len(st_api) > 3 else to_api((T.DEFAULT,), api)[0]
                for fr in stream.graph(g, [one_shot(tuple(st_api[:3]))]):
                    emit(fr)
        except Exception as e:  # noqa: BLE001
            raised_at.append((i, type(e).__name__))
        else:
            accepted.append(neutral)

    if case.get("pregen") and cls == "graph":
        # the caller creates every graph() generator first and consumes them afterwards
        gens = []
        for i, st in enumerate(seq):
            raw = mutate(st, slot, cause, nested) if i == pos else st
            st_api = to_api(raw, api)
            g = st_api[3] if len(st_api) > 3 else to_api((T.DEFAULT,), api)[0]
            neutral = ("?bad-accepted",) if i == pos else T.norm_st(st)
            try:
                gens.append((i, neutral, stream.graph(g, [st_api[:3]])))
            except Exception as e:  # noqa: BLE001
                gens.append((i, neutral, e))
        for i, neutral, gen in gens:
            try:
                if isinstance(gen, Exception):
                    raise gen
                for fr in gen:
                    emit(fr)
            except Exception as e:  # noqa: BLE001
                raised_at.append((i, type(e).__name__))
            else:
                accepted.append(neutral)
        seq_done = True
    else:
        seq_done = False
    reenter = case.get("reenter")
    for i, st in enumerate(seq if not seq_done else ()):
        if reenter and i > pos:
            # the caller hands the remaining statements to the integration's stream_frames()
            if api == "generic":
                from pyjelly.integrations.generic import serialize as ser  # noqa: PLC0415
            else:
                from pyjelly.integrations.rdflib import serialize as ser  # noqa: PLC0415
            rest = [to_api(x, api) for x in seq[i:]]
            try:
                for fr in ser.stream_frames(stream, (x for x in rest)):
                    emit(fr)
            except Exception as e:  # noqa: BLE001
                raised_at.extend((j, type(e).__name__) for j in range(i, len(seq)))
            else:
                accepted.extend(T.norm_st(x) for x in seq[i:])
            break
        if i == pos:
            bad = mutate(st, slot, cause, nested)
            if cls == "graph" and cause == "short_tuple":
                # the graph name is given separately; cut the triple part
                bad_api = to_api(st, api)
                bad_api = (*bad_api[: min(slot, 3)],) + (() if slot < 3 else ())
                g = to_api(st, api)[3]
                try:
                    for fr in stream.graph(g, [bad_api]):
                        emit(fr)
                except Exception as e:  # noqa: BLE001
                    raised_at.append((i, type(e).__name__))
                else:
                    accepted.append(("?bad-accepted",))
                continue
            send(i, to_api(bad, api), ("?bad-accepted",))
            if case.get("cut_after_reject"):
                # the caller salvages what was accepted so far by cutting a frame by hand
                try:
                    emit(stream.flow.to_stream_frame())
                except Exception:  # noqa: BLE001
                    pass
        else:
            send(i, to_api(st, api), T.norm_st(st))
    declared: list = []
    if ns_after:
        # the caller carries on by declaring a namespace on the same stream
        try:
            stream.namespace_declaration("v", ns_after)
            declared.append(("v", ("I", ns_after)))
        except Exception as e:  # noqa: BLE001
            raised_at.append((len(seq), type(e).__name__))
    flush_raised = None
    try:
        emit(stream.flow.to_stream_frame())
    except Exception as e:  # noqa: BLE001
        flush_raised = type(e).__name__
    return out.getvalue(), accepted, raised_at, flush_raised, len(seq), declared


def run_case(case: dict):
    data, accepted, raised_at, flush_raised, n, declared = drive(case)
    pos = case["pos"]
    rejected = any(i == pos for i, _ in raised_at)
    if not rejected:
        return "skip", "the mutated statement was accepted (not a rejection scenario)"
    try:
        frames = jwire.read_delimited(data)
        dec, per = jspec.decode_frames(frames, finish=False)
        got = [T.norm_st(s) for s in jspec.statements(per)]
        got_ns = jspec.namespaces(per)
        err = None
    except (jspec.SpecViolation, jwire.WireError) as e:
        got, got_ns, err = None, None, str(e)
    if err is None and got_ns != declared:
        return "poisoned", (f"after rejecting statement {pos} a namespace declaration of "
                            f"{declared} is written as {got_ns}")
    later = [i for i in range(pos + 1, n)]
    later_raised = [i for i, _ in raised_at if i > pos]
    refuses = bool(later) and len(later_raised) == len(later)
    if err is not None:
        return "corrupt", f"output became undecodable after a rejected statement: {err}"
    if got == accepted:
        return None
    if refuses and got == accepted[: len(got)]:
        return None
    return "poisoned", (f"after rejecting statement {pos} the output decodes to {got} but the "
                        f"accepted statements were {accepted}")


def all_cases(L: int):
    """Closed-form enumeration of the fault space."""
    for api in ("generic", "rdflib"):
        for cls in DR.CLASSES:
            arity = 3 if cls == "triple" else 4
            slots = list(range(arity))
            for preset in ((8, 2, 0), (8, 0, 0), (8, 2, 2)):
                for n in range(1, L + 1):
                    for pos in range(n):
                        for cause in CAUSES:
                            if cause == "datatype_disabled" and preset[2] != 0:
                                continue
                            if cause == "unencodable_string" and (preset[1] == 0 or api == "rdflib"):
                                continue  # (needs a prefix table; generic terms take any str)
                            for nested in (False, True):
                                if nested and (api == "rdflib" or cause == "short_tuple"):
                                    continue
                                for slot in (range(3) if nested else slots):
                                    if cause == "short_tuple" and slot == 0 and cls == "graph":
                                        continue
                                    yield (api, cls, preset, n, pos, cause, nested, slot)


def shard(job) -> dict:
    L, lo, hi, frame_size = job
    acc = pool.Acc()
    combos = list(all_cases(L))[lo:hi]
    for api, cls, preset, n, pos, cause, nested, slot in combos:
        for idx in range(6**n):
            sym = AL.seq_at(idx, 6, n, n)
            if api == "rdflib":
                alpha = AL.alphabet(SCOPE, 3 if cls == "triple" else 4)
                if not all(T.is_rdf11(alpha[i]) for i in sym):
                    acc.counters["not_rdf11"] += 1
                    continue
            base = {"api": api, "cls": cls, "preset": list(preset), "seq": list(sym),
                    "pos": pos, "slot": slot, "cause": cause, "nested": nested,
                    "frame_size": frame_size}
            variants = [base]
            if n <= 2 and frame_size == 250:
                variants += [{**base, "ns_after": iri} for iri in NS_AFTER]
            if pos < n - 1 and frame_size == 250 and cls != "graph" and n <= 3:
                variants.append({**base, "reenter": True})
            if cls == "graph" and cause != "short_tuple" and n >= 2:
                variants.append({**base, "pregen": True})
            if pos >= 1 and pos < n - 1 and frame_size == 250:
                variants.append({**base, "cut_after_reject": True})
            if n <= 2 and frame_size == 250:
                variants.append({**base, "as_iter": True})
            if cls == "graph" and n >= 2 and frame_size == 250:
                # flows that cut per dataset / never (not by size)
                variants.append({**base, "logical": 4})
                variants.append({**base, "logical": 14})
                variants.append({**base, "delimited": False})
            for case in variants:
                acc.evals += 1
                try:
                    r = run_case(case)
                except Exception as e:  # noqa: BLE001
                    acc.violation({"fail": "harness", "exc": type(e).__name__},
                                  f"harness could not drive case {case}: {e!r}", case)
                    continue
                if r is None:
                    acc.counters["held"] += 1
                    acc.nontrivial += 1
                    continue
                if r[0] == "skip":
                    acc.counters["bad_accepted"] += 1
                    continue
                acc.nontrivial += 1
                acc.violation({"fail": r[0], "cause": cause, "api": api,
                               "ns_after": bool(case.get("ns_after"))},
                              f"{r[1]} case={case}", case)
        acc.sample({"api": api, "cls": cls, "preset": preset, "len": n, "pos": pos,
                    "cause": cause, "nested": nested, "slot": slot}, cap=2)
    return acc.out()


def optimised_process() -> list[dict]:
    """The fault space for sequences of length <= 2 once more in an interpreter started with
    PYTHONOPTIMIZE=1 (python -O): refusing further use of a stream must not hinge on `assert`
    statements, which that mode removes."""
    import json  # noqa: PLC0415
    import os  # noqa: PLC0415
    import subprocess  # noqa: PLC0415
    import sys  # noqa: PLC0415

    from mc import env  # noqa: PLC0415

    envp = dict(os.environ)
    envp["PYTHONOPTIMIZE"] = "1"
    envp["VERIF_C20_OPT"] = "1"
    r = subprocess.run([sys.executable, "-B", "-W", "ignore", "-m", "mc.checks.c20"],
                       capture_output=True, text=True, env=envp, cwd=env.VERIF, check=False)
    if r.returncode != 0:
        raise env.HarnessError(f"optimised subprocess failed: {r.stderr[-800:]}")
    out = json.loads(r.stdout.strip().splitlines()[-1])
    if out["optimize"] < 1:
        raise env.HarnessError("the subprocess did not run in optimised mode")
    return out


def run(ctx) -> None:
    L = 3 if ctx.quick else 4
    ncombo = len(list(all_cases(L)))
    jobs = []
    for fs in ((1, 250) if ctx.quick else (1, 2, 250)):
        jobs += [(L, lo, hi, fs) for lo, hi in pool.split_range(ncombo, 32)]
    merged = pool.merge(pool.pmap(shard, jobs))
    ctx.add(merged)
    opt = optimised_process()
    for v in opt["violations"]:
        ctx.violation({**v["sig"], "mode": "python -O"},
                      f"under python -O (PYTHONOPTIMIZE=1): {v['what']}",
                      {**v["case"], "optimised": True})
    ctx.coverage["cases_under_python_O"] = opt["evals"]
    harness = [v for v in merged["violations"] if v["sig"].get("fail") == "harness"]
    if harness:
        from mc.env import HarnessError  # noqa: PLC0415

        raise HarnessError(harness[0]["what"])
    ctx.coverage.update(
        evaluations=merged["evals"],
        distinct_nontrivial=merged["nontrivial"],
        exhaustive=True,
        fault_points=ncombo,
        held=merged["counters"].get("held", 0),
        mutated_statement_accepted=merged["counters"].get("bad_accepted", 0),
        samples=merged["samples"],
        rule=(
            f"every sequence of length n<=L={L} over the 6-statement 'repeat' scope x every "
            "position x every slot (s,p,o,g and s/p/o inside a quoted triple) x causes "
            "{unsupported term object, typed literal with datatype table 0, tuple cut short, IRI "
            "whose text the protobuf layer cannot encode} x "
            "{Triple,Quad,Graph}Stream x {generic, rdflib} x 3 presets x frame sizes; "
            "non-trivial = the statement was really rejected"
        ),
    )


def replay(case: dict) -> list:
    if case.get("optimised"):
        key = {k: v for k, v in case.items() if k != "optimised"}
        return [v["what"] for v in optimised_process()["violations"] if v["case"] == key]
    r = run_case(case)
    return [r[1]] if r and r[0] != "skip" else []


if __name__ == "__main__":
    import json as _json
    import os as _os
    import sys as _sys

    if _os.environ.get("VERIF_C20_OPT"):
        from mc import env as _env

        _env.pin()
        _env.assert_repo_pyjelly()
        DR.ensure_rdflib_plugin()
        _n = len(list(all_cases(2)))
        _res = shard((2, 0, _n, 250))
        print(_json.dumps({"optimize": _sys.flags.optimize, "evals": _res["evals"],
                           "violations": _res["violations"][:50]}))
