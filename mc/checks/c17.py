"""C17 - arbitrary bytes cannot crash, hang or balloon the parser.

Bounded-exhaustive input neighbourhoods (E1 short strings, E2 one- and
two-point mutations of seed streams, E3 a hostile catalogue) through every
parse entry point, from BytesIO and from a non-seekable raw source.  Oracle per
case: returns or raises an ordinary Exception within the time budget, peak RSS
does not grow by more than 64 MiB, the worker process survives.
"""
from __future__ import annotations

import io
import itertools
import multiprocessing as mp
import os
import resource
import signal
import tempfile
import time

from mc import corpus, drivers as DR, env, faultio, jwire, pool
from mc.checks.c10 import consume_flat, consume_grouped

LEVEL = "fault_enumeration"
STRUCT = bytes([0x0A, 0x12, 0x1A, 0x22, 0x2A, 0x32, 0x4A, 0x52, 0x5A, 0x7A,
                0x00, 0x01, 0x02, 0x08, 0x7F, 0x80, 0xFF])
TIME_BUDGET = 10.0       # CPU seconds per case (ITIMER_PROF: independent of machine load)
RSS_BUDGET_KB = 24 * 1024
CASE_WALL_LIMIT = 90.0   # parent-side wall clock: a single case may never hold a worker longer
AS_LIMIT = 6 * 2**30


MAX_GROWN = 0


class CaseTimeout(BaseException):
    pass


def _alarm(signum, frame):
    raise CaseTimeout()


def parse_all(data: bytes, thorough: bool, apis=("generic", "rdflib")) -> dict:
    """Run every entry point; returns {entry: outcome string}."""
    out = {}
    for api in apis:
        for mode, fn in (("flat", consume_flat), ("grouped", consume_grouped)):
            for srcname in ("bytesio", "raw"):
                src = io.BytesIO(data) if srcname == "bytesio" else faultio.ScheduleRaw(data)
                # (the sinks of a grouped parse are dropped as they come: memory is judged)
                items, exc = fn(api, src) if mode == "flat" else fn(api, src, keep=False)
                out[f"{api}.{mode}.{srcname}"] = exc or "ok"
        if thorough:
            for reader in ("to_graph", "graph_parse") if api == "rdflib" else ("to_graph",):
                try:
                    (DR.g_read if api == "generic" else DR.r_read)(data, reader)
                    out[f"{api}.{reader}"] = "ok"
                except Exception as e:  # noqa: BLE001
                    out[f"{api}.{reader}"] = type(e).__name__
    return out


def frames_in(data: bytes) -> int:
    """Number of complete delimited frames the input really contains (legitimate work: every
    frame, even an empty one, costs the grouped parsers one sink object)."""
    try:
        return len(jwire.frame_offsets(data))
    except jwire.WireError:
        return 0


def run_one(data: bytes, thorough: bool, apis=("generic", "rdflib")):
    """-> (violation kind | None, detail, outcomes)."""
    nframes = frames_in(data) if len(data) > 2000 else 0
    budget = TIME_BUDGET + 0.0002 * nframes
    before = resource.getrusage(resource.RUSAGE_SELF).ru_maxrss
    t0 = time.process_time()
    signal.setitimer(signal.ITIMER_PROF, budget)
    try:
        outcomes = parse_all(data, thorough, apis)
    except CaseTimeout:
        return "hang", f"no result within {budget:.0f}s of CPU time", {}
    except BaseException as e:  # noqa: BLE001
        return "fatal", f"non-ordinary exception {type(e).__name__}: {e}", {}
    finally:
        signal.setitimer(signal.ITIMER_PROF, 0)
    dt = time.process_time() - t0
    grown = resource.getrusage(resource.RUSAGE_SELF).ru_maxrss - before
    global MAX_GROWN
    MAX_GROWN = max(MAX_GROWN, grown)
    # the input itself is held a few times (source copy, read buffer, protobuf copy)
    if grown > RSS_BUDGET_KB + 10 * len(data) // 1024 + 2 * nframes:
        return "memory", f"peak RSS grew by {grown // 1024} MiB", outcomes
    if dt > budget:
        return "slow", f"took {dt:.1f}s", outcomes
    return None, f"{dt * 1000:.2f}ms", outcomes


# ------------------------------------------------------------ case families
def seeds() -> list[tuple[str, bytes]]:
    out = []
    for e in corpus.base_streams("small"):
        if e["name"] in ("prefix/triple/fs2", "datatype/quad/fs2", "quoted/graph/fs2",
                         "ns/triple", "repeat/quad/fs250", "literal/graph/fs250"):
            out.append((e["name"], e["data"]))
            raws = jwire.split_delimited(e["data"])
            if e["name"] in ("prefix/triple/fs2", "repeat/quad/fs250"):
                out.append((e["name"] + "/nondelim", raws[0]))
    return out


def family_e1(job):
    kind, lo, hi, n = job
    if kind == "all256":
        for k in range(lo, hi):
            if k == 0:
                yield b""
            elif k <= 256:
                yield bytes([k - 1])
            else:
                v = k - 257
                yield bytes([v >> 8, v & 0xFF])
    else:
        for idx in range(lo, hi):
            sym = []
            x = idx
            for _ in range(n):
                x, r = divmod(x, len(STRUCT))
                sym.append(STRUCT[r])
            yield bytes(sym)


def family_e2(seed: bytes, values, lo: int, hi: int):
    n = len(seed)
    for pos in range(lo, min(hi, n)):
        for v in values:
            if v != seed[pos]:
                yield seed[:pos] + bytes([v]) + seed[pos + 1:]
        yield seed[:pos] + seed[pos + 1:]                 # deletion
        for v in STRUCT:
            yield seed[:pos] + bytes([v]) + seed[pos:]    # insertion
        yield seed[:pos]                                   # truncation
        for h in itertools.product((0x0A, 0x00, 0x80, 0xFF), repeat=2):
            if pos >= 3:
                yield bytes(h) + seed[2:pos]               # truncate + new first bytes


def varint(n: int) -> bytes:
    return jwire.enc_varint(n)


def family_e3(thorough: bool = False):
    opts = {"physical_type": 1, "max_name_table_size": 8, "version": 1}
    orow = jwire.mkrow("options", opts)
    big = (2**31 - 1, 2**33, 2**62)
    for n in big:
        yield "huge-frame-length", varint(n) + b"\x0a\x02\x0a\x00"
        yield "huge-row-length", varint(20) + b"\x0a" + varint(n) + b"\x0a\x00" * 4
        yield "huge-string-length", jwire.write_delimited(
            [jwire.enc_frame([orow])]) + varint(30) + b"\x0a\x10\x4a" + varint(14) + b"\x12" + \
            varint(n) + b"abc"
        yield "huge-nondelimited", b"\x0a" + varint(n) + b"\x0a\x00"
    for size in (4097, 2**32 - 1):
        for field in ("max_name_table_size", "max_prefix_table_size", "max_datatype_table_size"):
            o = jwire.mkrow("options", {**opts, field: size})
            tr = jwire.mkrow("triple", {"s": ("bnode", "a"), "p": ("bnode", "b"),
                                        "o": ("bnode", "c")})
            yield "huge-table-" + field, jwire.write_delimited([jwire.enc_frame([o, tr])])
            for eid in (size, 6_000_000, 20_000_000, 2**32 - 1):
                ent = jwire.mkrow("name", {"id": eid, "value": "x"})
                yield "huge-entry-id", jwire.write_delimited([jwire.enc_frame([orow, ent, tr])])
    for eid in (9, 4097, 6_000_000, 20_000_000, 2**32 - 1):
        for kind in ("name", "prefix", "datatype"):
            o = jwire.mkrow("options", {**opts, "max_prefix_table_size": 16,
                                        "max_datatype_table_size": 16})
            ent = jwire.mkrow(kind, {"id": eid, "value": "x"})
            yield "huge-entry-id", jwire.write_delimited([jwire.enc_frame([o, ent])])
    # every numeric field of the options row at the limits of its wire type (work must not be
    # proportional to a declared number), and the same for the ids inside terms
    tr_b = jwire.mkrow("triple", {"s": ("bnode", "a"), "p": ("bnode", "b"), "o": ("bnode", "c")})
    for field in ("version", "physical_type", "logical_type", "max_name_table_size",
                  "max_prefix_table_size", "max_datatype_table_size"):
        for v in (2**31 - 1, 2**32 - 1, 10**6, 10**8):
            o = jwire.mkrow("options", {**opts, field: v})
            yield "huge-options-field", jwire.write_delimited([jwire.enc_frame([o, tr_b])])
            yield "huge-options-field", jwire.enc_frame([o, tr_b])
    o16 = jwire.mkrow("options", {**opts, "max_prefix_table_size": 16, "max_datatype_table_size": 16})
    for v in (2**31 - 1, 2**32 - 1):
        for term in (("iri", v, 1), ("iri", 1, v), ("iri", v, v), ("literal", "x", None, v)):
            rows = [o16, jwire.mkrow("prefix", {"id": 1, "value": "p"}),
                    jwire.mkrow("name", {"id": 1, "value": "n"}),
                    jwire.mkrow("datatype", {"id": 1, "value": "d"}),
                    jwire.mkrow("triple", {"s": ("bnode", "a"), "p": ("iri", 1, 1), "o": term})]
            yield "huge-term-id", jwire.write_delimited([jwire.enc_frame(rows)])
    for depth in list(range(1, 40)) + [64, 99, 100, 101, 150, 200, 1000, 20000]:
        tail = jwire.f_str(6, "p") + jwire.f_str(10, "o")
        tb = jwire.f_str(2, "x") + tail                    # innermost triple (s_bnode, p, o)
        for _ in range(depth):
            tb = jwire.f_bytes(4, tb) + tail               # wrap as s_triple_term
        row = jwire.f_bytes(2, tb)                          # RdfStreamRow.triple
        yield "deep-nesting", jwire.write_delimited([jwire.enc_frame([orow, row])])
    for sizes in ((4096, 4096, 4096), (4096, 4096, 0), (4096, 0, 4096), (4000, 150, 32)):
        o = jwire.mkrow("options", {**opts, "max_name_table_size": sizes[0],
                                    "max_prefix_table_size": sizes[1],
                                    "max_datatype_table_size": sizes[2]})
        tr0 = jwire.mkrow("triple", {"s": ("bnode", "a"), "p": ("bnode", "b"), "o": ("bnode", "c")})
        yield "legal-maximum-tables", jwire.write_delimited([jwire.enc_frame([o, tr0])])
        yield "legal-maximum-tables", jwire.enc_frame([o, tr0])
    one = jwire.write_delimited([jwire.enc_frame([orow])])
    for n in (1_000_000, 3_000_000):
        yield "continuation-bytes", b"\xff" * n
        yield "continuation-bytes", one + b"\x80" * n
    yield "continuation-bytes", b"\x80" * 100_000
    yield "continuation-bytes", b"\x0a" + b"\xff" * 100_000
    yield "empty-frames", b"\x00" * 10_000
    yield "empty-frames", b"\x00" * 10_000 + jwire.write_delimited([jwire.enc_frame([orow])])
    tr1 = jwire.mkrow("triple", {"s": ("bnode", "a"), "p": ("bnode", "b"), "o": ("bnode", "c")})
    for k in (40_000, 100_000) + ((400_000,) if thorough else ()):
        yield "empty-frames", b"\x00" * k + jwire.write_delimited([jwire.enc_frame([orow, tr1])])
    tr = jwire.mkrow("triple", {"s": ("bnode", "a"), "p": ("bnode", "b"), "o": ("bnode", "c")})
    for pos in range(0, 6):
        rows = [orow] + [tr] * 5
        rows.insert(pos, orow)
        yield "options-everywhere", jwire.write_delimited([jwire.enc_frame(rows)])
        rows2 = [tr] * 5
        rows2.insert(pos, orow)
        yield "options-late", jwire.write_delimited([jwire.enc_frame(rows2)])
    # a later options row that declares other (huge) sizes than the first one
    for field in ("max_name_table_size", "max_prefix_table_size", "max_datatype_table_size"):
        for v in (8_000_000, 2**31 - 1):
            o_big = jwire.mkrow("options", {**opts, field: v})
            yield "options-redeclared", jwire.write_delimited([jwire.enc_frame([orow, tr, o_big, tr])])
            yield "options-redeclared", jwire.write_delimited(
                [jwire.enc_frame([orow, tr]), jwire.enc_frame([o_big, tr])])
            yield "options-redeclared", jwire.enc_frame([orow, tr, o_big, tr])
    many = jwire.enc_frame([orow] + [tr] * 3)
    yield "many-frames", jwire.write_delimited([many] * 2000)
    # long, almost well-formed strings in every string-valued field (pattern matching on them
    # must not blow up)
    o2 = jwire.mkrow("options", {**opts, "version": 2, "max_prefix_table_size": 4,
                                 "max_datatype_table_size": 4})
    for base_s in ("abc123" * 8, "a-" * 40, "x" * 200, "a1-" * 300):
        for junk in ("\u00e9", "\x00", " ", "-", "_"):
            sbad = base_s + junk
            rows = [o2,
                    jwire.mkrow("prefix", {"id": 1, "value": sbad}),
                    jwire.mkrow("name", {"id": 1, "value": sbad}),
                    jwire.mkrow("datatype", {"id": 1, "value": sbad}),
                    jwire.mkrow("namespace", {"name": sbad, "iri": ("iri", 1, 1)}),
                    jwire.mkrow("triple", {"s": ("bnode", sbad), "p": ("iri", 1, 1),
                                           "o": ("literal", sbad, sbad, None)}),
                    jwire.mkrow("triple", {"s": ("iri", 1, 1), "p": ("iri", 1, 1),
                                           "o": ("literal", sbad, None, 1)})]
            yield "hostile-strings", jwire.write_delimited([jwire.enc_frame(rows)])
    # a stream name made of dots (names with a hierarchy: loggers, attribute paths, file paths)
    for sep in (".", "/", ":", "\\"):
        for n in (5000, 30000):
            on = jwire.mkrow("options", {**opts, "stream_name": ("a" + sep) * n})
            tr_n = jwire.mkrow("triple", {"s": ("bnode", "a"), "p": ("bnode", "b"),
                                          "o": ("bnode", "c")})
            yield "separator-stream-name", jwire.write_delimited([jwire.enc_frame([on, tr_n])])
            yield "separator-stream-name", jwire.enc_frame([on, tr_n])
    # strings that mean something to a formatting routine (%-directives with a huge width,
    # str.format fields): in every string-valued field, and as a prefix label that is declared
    # twice with different IRIs
    for fmt in ("%0999999999d", "%999999999s", "%-999999999s %s %s %s", "{0:>999999999}",
                "{:999999999}", "%(name)999999999s", "%*d", "${jndi:x}", "%n%n%n"):
        rows = [o2,
                jwire.mkrow("prefix", {"id": 1, "value": "http://a/" + fmt}),
                jwire.mkrow("prefix", {"id": 2, "value": fmt}),
                jwire.mkrow("name", {"id": 1, "value": fmt}),
                jwire.mkrow("name", {"id": 2, "value": "x"}),
                jwire.mkrow("datatype", {"id": 1, "value": fmt}),
                jwire.mkrow("namespace", {"name": fmt, "iri": ("iri", 1, 1)}),
                jwire.mkrow("namespace", {"name": fmt, "iri": ("iri", 2, 2)}),
                jwire.mkrow("namespace", {"name": "p", "iri": ("iri", 1, 1)}),
                jwire.mkrow("namespace", {"name": "p", "iri": ("iri", 2, 1)}),
                jwire.mkrow("triple", {"s": ("bnode", fmt), "p": ("iri", 1, 1),
                                       "o": ("literal", fmt, fmt[:8], None)}),
                jwire.mkrow("triple", {"s": ("iri", 2, 1), "p": ("iri", 1, 2),
                                       "o": ("literal", fmt, None, 1)})]
        yield "format-directives", jwire.write_delimited([jwire.enc_frame(rows)])
        yield "format-directives", jwire.enc_frame(rows)


def family_e3b():
    """Inputs that open like a compressed file: tiny on the wire, enormous when inflated. A
    reader that inflates them owes the caller a bound."""
    import bz2  # noqa: PLC0415
    import gzip  # noqa: PLC0415
    import lzma  # noqa: PLC0415
    import zlib  # noqa: PLC0415

    opts = {"physical_type": 1, "max_name_table_size": 8, "version": 1}
    tr = jwire.mkrow("triple", {"s": ("bnode", "a"), "p": ("bnode", "b"), "o": ("bnode", "c")})
    valid = jwire.write_delimited([jwire.enc_frame([jwire.mkrow("options", opts), tr])])
    frame = jwire.write_delimited([jwire.enc_frame([tr])])
    n = 64 * 1024 * 1024
    payloads = {"zero-frames": b"\x00" * n,
                "valid-then-zero-frames": valid + b"\x00" * n,
                "valid-then-frames": valid + frame * (n // len(frame))}
    for pname, payload in payloads.items():
        for cname, comp in (("gzip", lambda b: gzip.compress(b, 6)), ("zlib", zlib.compress),
                            ("bz2", bz2.compress), ("xz", lzma.compress)):
            if cname in ("bz2", "xz") and pname != "zero-frames":
                continue
            yield f"compressed-bomb-{cname}-{pname}", comp(payload)


def family_e6():
    """One container object that is parsed into repeatedly: after an input was refused, the
    next parse into the same Graph / Dataset / sink must still come back (and deliver)."""
    opts = {"physical_type": 1, "max_name_table_size": 8, "version": 1}
    tr = jwire.mkrow("triple", {"s": ("bnode", "a"), "p": ("bnode", "b"), "o": ("bnode", "c")})
    valid = jwire.write_delimited([jwire.enc_frame([jwire.mkrow("options", opts), tr])])
    flipped = bytearray(valid)
    flipped[3] ^= 0x40
    bads = {"zeros": b"\x00\x00\x00", "text": b"data", "empty": b"", "truncated": valid[:-3],
            "bit-flip": bytes(flipped), "valid": valid}
    for bname, bad in bads.items():
        for box in ("rdflib-graph", "rdflib-dataset", "rdflib-to_graph-factory", "generic-sink",
                    "generic-to_graph-factory"):
            yield f"{box}:{bname}", (box, bad, valid)


def run_sequence(box: str, bad: bytes, valid: bytes):
    """In a child process under a wall-clock alarm (a blocked lock burns no CPU time)."""
    import json  # noqa: PLC0415

    r, w = os.pipe()
    pid = os.fork()
    if pid == 0:
        try:
            os.close(r)

            def bell(signum, frame):
                os.write(w, json.dumps(["hang", "the second parse into the same container did "
                                                "not come back within 20 s"]).encode())
                os._exit(0)

            signal.signal(signal.SIGALRM, bell)
            signal.alarm(20)
            res = [None, "ok"]
            try:
                if box.startswith("rdflib"):
                    import rdflib  # noqa: PLC0415
                    from pyjelly.integrations.rdflib.parse import parse_jelly_to_graph  # noqa: PLC0415

                    g = rdflib.Dataset() if box == "rdflib-dataset" else rdflib.Graph()

                    def load(b):
                        if box == "rdflib-to_graph-factory":
                            parse_jelly_to_graph(io.BytesIO(b), graph_factory=lambda: g)
                        else:
                            g.parse(io.BytesIO(b), format="jelly")

                    size = lambda: len(g)  # noqa: E731
                else:
                    from pyjelly.integrations.generic.generic_sink import GenericStatementSink  # noqa: PLC0415
                    from pyjelly.integrations.generic.parse import parse_jelly_to_graph  # noqa: PLC0415

                    g = GenericStatementSink()

                    def load(b):
                        if box == "generic-to_graph-factory":
                            parse_jelly_to_graph(io.BytesIO(b), sink_factory=lambda: g)
                        else:
                            g.parse(io.BytesIO(b))

                    size = lambda: len(list(g))  # noqa: E731
                for _ in range(2):
                    try:
                        load(bad)
                    except Exception:  # noqa: BLE001
                        pass
                try:
                    load(valid)
                except Exception as e:  # noqa: BLE001
                    res = ["refused", f"after the damaged input the same container refuses a "
                                      f"valid stream: {type(e).__name__}: {e}"]
                else:
                    if size() < 1:
                        res = ["refused", "the valid stream left nothing in the container"]
            except BaseException as e:  # noqa: BLE001
                res = ["fatal", f"{type(e).__name__}: {e}"]
            os.write(w, json.dumps(res).encode())
        finally:
            os._exit(0)
    os.close(w)
    buf = b""
    while chunk := os.read(r, 65536):
        buf += chunk
    os.close(r)
    os.waitpid(pid, 0)
    if not buf:
        return "fatal", "child process ended without a result"
    kind, detail = json.loads(buf)
    return kind, detail


def family_e5():
    """Typed literals whose *value* is astronomically larger than their lexical form: turning
    the value back into text must not cost memory in proportion to the number written down."""
    xsd = "http://www.w3.org/2001/XMLSchema#"
    opts = {"physical_type": 1, "max_name_table_size": 8, "max_datatype_table_size": 4,
            "version": 1}

    def stream(lex: str, dt: str) -> bytes:
        rows = [jwire.mkrow("options", opts), jwire.mkrow("datatype", {"id": 1, "value": xsd + dt}),
                jwire.mkrow("triple", {"s": ("bnode", "a"), "p": ("bnode", "b"),
                                       "o": ("literal", lex, None, 1)})]
        return jwire.write_delimited([jwire.enc_frame(rows)])

    for lex in ("1E30000000", "1E-30000000", "-2.5e+30000000"):
        yield "decimal-exponent", stream(lex, "decimal")
    for dt in ("double", "float", "integer", "long", "nonNegativeInteger", "duration", "dateTime",
               "gYear", "hexBinary", "boolean"):
        for lex in ("1E30000000", "1E-30000000", "P30000000000Y", "30000000000-01-01T00:00:00",
                    "9" * 4000):
            yield "value-expansion", stream(lex, dt)


def isolated(data: bytes, thorough: bool, apis=("generic", "rdflib")):
    """run_one in a child process of its own: peak RSS is per process and never goes down, so a
    case that is expected to balloon must not hide what later cases do."""
    import json  # noqa: PLC0415

    r, w = os.pipe()
    pid = os.fork()
    if pid == 0:
        try:
            os.close(r)
            kind, detail, outcomes = run_one(data, thorough, apis)
            os.write(w, json.dumps([kind, detail, outcomes]).encode())
        finally:
            os._exit(0)
    os.close(w)
    buf = b""
    while chunk := os.read(r, 65536):
        buf += chunk
    os.close(r)
    _, status = os.waitpid(pid, 0)
    if not buf:
        return "fatal", f"child process ended without a result (status {status})", {}
    return tuple(json.loads(buf))


def scaling_input(kind: str, k: int) -> bytes:
    opts = {"physical_type": 1, "max_name_table_size": 8, "version": 1}
    orow = jwire.mkrow("options", opts)
    full = jwire.mkrow("triple", {"s": ("bnode", "a"), "p": ("bnode", "b"), "o": ("bnode", "c")})
    if kind == "rows-per-frame":
        rep = jwire.mkrow("triple", {})  # repeats s, p and o: the smallest possible row
        return jwire.write_delimited([jwire.enc_frame([orow, full] + [rep] * k)])
    if kind == "frames":
        fr = jwire.enc_frame([jwire.mkrow("triple", {})])
        return jwire.write_delimited([jwire.enc_frame([orow, full])] + [fr] * k)
    if kind == "entries":
        rows = [orow, full]
        for i in range(k):
            rows.append(jwire.mkrow("name", {"id": (i % 8) + 1, "value": f"n{i}"}))
        return jwire.write_delimited([jwire.enc_frame(rows)])
    if kind in ("integer-digits", "decimal-digits"):
        # one typed literal whose lexical form has k digits (conversions must not be super-linear)
        dt = "http://www.w3.org/2001/XMLSchema#" + kind.split("-")[0]
        o = jwire.mkrow("options", {**opts, "max_datatype_table_size": 4})
        rows = [o, jwire.mkrow("datatype", {"id": 1, "value": dt}),
                jwire.mkrow("triple", {"s": ("bnode", "a"), "p": ("bnode", "b"),
                                       "o": ("literal", "7" * k, None, 1)})]
        return jwire.write_delimited([jwire.enc_frame(rows)])
    if kind == "combining-marks":
        # one literal with 2k combining marks in non-canonical order (normalising text must not be
        # quadratic in the length of such a run)
        rows = [orow, jwire.mkrow("triple", {"s": ("bnode", "a"), "p": ("bnode", "b"),
                                             "o": ("literal", "a" + "\u0301\u0323" * k, None, None)})]
        return jwire.write_delimited([jwire.enc_frame(rows)])
    if kind == "slot-reuse":
        # sqrt(k) prefixes x sqrt(k) names all used once, then k/10 name entries that overwrite a
        # slot in use (each followed by one use): work per overwrite must not grow with the
        # number of IRIs seen so far
        import math  # noqa: PLC0415

        n = max(2, int(math.isqrt(k)))
        o = jwire.mkrow("options", {**opts, "max_name_table_size": n, "max_prefix_table_size": n})
        rows = [o]
        rows += [jwire.mkrow("prefix", {"id": i + 1, "value": f"http://p{i}/"}) for i in range(n)]
        rows += [jwire.mkrow("name", {"id": j + 1, "value": f"n{j}"}) for j in range(n)]
        for i in range(n):
            for j in range(n):
                rows.append(jwire.mkrow("triple", {"s": ("iri", i + 1, j + 1), "p": ("bnode", "p"),
                                                   "o": ("bnode", "o")}))
        for m in range(k // 10):
            rows.append(jwire.mkrow("name", {"id": 1, "value": f"again{m}"}))
            rows.append(jwire.mkrow("triple", {"s": ("iri", 1, 1), "p": ("bnode", "p"),
                                               "o": ("bnode", "o")}))
        return jwire.write_delimited([jwire.enc_frame(rows[i:i + 500])
                                      for i in range(0, len(rows), 500)])
    if kind == "one-huge-frame":
        # a single frame of k bytes (one long literal), read from a non-seekable source
        rows = [orow, jwire.mkrow("triple", {"s": ("bnode", "a"), "p": ("bnode", "b"),
                                             "o": ("literal", "z" * k, None, None)})]
        return jwire.write_delimited([jwire.enc_frame(rows)])
    if kind == "many-namespaces":
        # k namespace declarations with distinct labels in one frame, then one statement
        o = jwire.mkrow("options", {**opts, "version": 2, "max_prefix_table_size": 8})
        rows = [o, jwire.mkrow("prefix", {"id": 1, "value": "http://n/"})]
        for i in range(k):
            rows.append(jwire.mkrow("name", {"id": (i % 8) + 1, "value": f"ns{i}#"}))
            rows.append(jwire.mkrow("namespace", {"name": f"p{i}", "iri": ("iri", 1, (i % 8) + 1)}))
        rows.append(full)
        return jwire.write_delimited([jwire.enc_frame(rows)])
    if kind == "ns-then-frames":
        # k namespace declarations in the first frame, then k tiny frames
        o = jwire.mkrow("options", {**opts, "version": 2, "max_prefix_table_size": 8})
        rows = [o, jwire.mkrow("prefix", {"id": 1, "value": "http://n/"})]
        for i in range(k):
            rows.append(jwire.mkrow("name", {"id": (i % 8) + 1, "value": f"ns{i}#"}))
            rows.append(jwire.mkrow("namespace", {"name": f"p{i}", "iri": ("iri", 1, (i % 8) + 1)}))
        rows.append(full)
        frames = [jwire.enc_frame(rows)]
        frames += [jwire.enc_frame([jwire.mkrow("triple", {"o": ("literal", str(i), None, None)})])
                   for i in range(k)]
        return jwire.write_delimited(frames)
    if kind == "repeated-quoted":
        # one large quoted triple as subject (balanced nesting, about k triples in it), then k
        # rows that repeat subject and predicate: work must be rows + size, not rows x size
        import math  # noqa: PLC0415

        depth = max(1, int(math.log2(max(k, 2))) - 1)

        def quoted(d: int):
            if d == 0:
                return ("bnode", "x")
            q = quoted(d - 1)
            return ("triple", {"s": q, "p": ("bnode", "p"), "o": q})

        o = jwire.mkrow("options", {**opts, "rdf_star": True, "generalized_statements": True})
        rows = [o, jwire.mkrow("triple", {"s": quoted(depth), "p": ("bnode", "p"),
                                          "o": ("literal", "0", None, None)})]
        rows += [jwire.mkrow("triple", {"o": ("literal", str(i), None, None)}) for i in range(1, k)]
        return jwire.write_delimited([jwire.enc_frame(rows)])
    if kind == "distinct-statements":
        rows = [orow]
        for i in range(k):
            rows.append(jwire.mkrow("name", {"id": (i % 8) + 1, "value": f"n{i}"}))
            rows.append(jwire.mkrow("triple", {"s": ("iri", 0, (i % 8) + 1), "p": ("bnode", "p"),
                                               "o": ("literal", str(i), None, None)}))
        return jwire.write_delimited([jwire.enc_frame(rows)])
    raise ValueError(kind)


SCALING = (("rows-per-frame", 50_000), ("frames", 20_000), ("entries", 50_000),
           ("distinct-statements", 20_000), ("integer-digits", 200_000), ("decimal-digits", 200_000),
           ("repeated-quoted", 2_000), ("combining-marks", 8_000), ("ns-then-frames", 150),
           ("many-namespaces", 8_000), ("slot-reuse", 10_000), ("one-huge-frame", 6_000_000))
# (size multiplier, ratio above which growth counts as super-linear, items expected per unit)
SCALING_STEP = {"integer-digits": (16, 24.0), "decimal-digits": (16, 24.0)}
# (sizes at which a quadratic term becomes visible differ a lot between the integrations)
SCALING_K = {("rdflib", "many-namespaces"): 2_000}


def count_items(api: str, reader: str, data: bytes, nonseekable: bool = False):
    """Run one parser over `data` and only count what it delivers (no conversion of the items:
    the harness must not add work of its own to what is being timed)."""
    if nonseekable:
        _bytesio = io.BytesIO

        class _Src:  # noqa: N801
            """io.BytesIO stand-in inside this call: a non-seekable raw source instead."""

            def __new__(cls, b):
                return faultio.ScheduleRaw(b)

        io_BytesIO = _Src
    else:
        io_BytesIO = io.BytesIO
    try:
        if api == "generic":
            from pyjelly.integrations.generic import parse as gp  # noqa: PLC0415

            if reader == "flat":
                n = sum(1 for _ in gp.parse_jelly_flat(io_BytesIO(data)))
            elif reader == "grouped":
                n = sum(len(list(s)) for s in gp.parse_jelly_grouped(io_BytesIO(data)))
            else:
                n = sum(1 for _ in gp.parse_jelly_to_graph(io_BytesIO(data)))
        else:
            from pyjelly.integrations.rdflib import parse as rp  # noqa: PLC0415

            if reader == "flat":
                n = sum(1 for _ in rp.parse_jelly_flat(io_BytesIO(data)))
            elif reader == "grouped":
                n = sum(len(g) for g in rp.parse_jelly_grouped(io_BytesIO(data)))
            else:
                n = len(rp.parse_jelly_to_graph(io_BytesIO(data)))
    except Exception as e:  # noqa: BLE001
        return [], type(e).__name__
    return [None] * n, None


def scaling_shard(job) -> dict:
    """Time must grow (about) linearly with the real size of the input: t(4n) / t(n) stays far
    below the 16 of a quadratic algorithm."""
    kind, k, thorough = job
    acc = pool.Acc()
    for api, reader in (("generic", "flat"), ("rdflib", "flat"), ("generic", "to_graph"),
                        ("rdflib", "to_graph"), ("generic", "grouped"), ("rdflib", "grouped")):
        if reader == "grouped" and kind not in ("ns-then-frames", "frames", "many-namespaces"):
            continue
        if kind == "repeated-quoted" and api == "rdflib":
            continue  # (quoted triples are not RDF 1.1)
        if kind == "one-huge-frame" and reader != "flat":
            continue
        times = []
        step, limit = SCALING_STEP.get(kind, (4, 9.0))
        single = kind in SCALING_STEP or kind in ("entries", "combining-marks", "many-namespaces",
                                                  "one-huge-frame")  # (one statement)
        k = SCALING_K.get((api, kind), job[1])
        for mult in (1, step):
            data = scaling_input(kind, k * mult)
            t0 = time.process_time()
            items, exc = count_items(api, reader, data, nonseekable=kind == "one-huge-frame")
            times.append(time.process_time() - t0)
            if exc is not None or len(items) < (1 if single or reader != "flat" else k * mult):
                acc.extra["harness"] = f"scaling input {kind} x{mult} not parsed: {exc} {len(items)}"
        acc.evals += 1
        acc.nontrivial += 1
        t1, t4 = times
        if t4 > 2.0 and t4 > limit * max(t1, 0.02):
            acc.violation({"fail": "super-linear", "family": "e4:" + kind, "api": api,
                           "label": kind},
                          f"{api} {reader} parser: {kind} of size {k} takes {t1:.2f}s CPU, size "
                          f"{step * k} takes {t4:.2f}s (x{t4 / max(t1, 1e-9):.1f}; linear would be "
                          f"x{step})",
                          {"family": "e4:" + kind, "k": k, "data": None, "thorough": thorough})
        acc.extra.setdefault("scaling", {})[f"{api}.{reader}:{kind}"] = [round(t1, 3), round(t4, 3)]
    acc.sample({"family": "e4", "kind": kind, "sizes": [k, 4 * k]}, cap=1)
    return acc.out()


# ------------------------------------------------------------------ workers
def shard(job) -> dict:
    fam, args, thorough, progress = job
    if fam == "e4":
        return scaling_shard((*args, thorough))
    signal.signal(signal.SIGPROF, _alarm)
    resource.setrlimit(resource.RLIMIT_AS, (AS_LIMIT, AS_LIMIT))  # protect the machine
    for _, seed in seeds()[:2]:
        parse_all(seed, thorough)  # warm-up: lazy imports and caches are not the case's memory
    acc = pool.Acc()
    hist: dict = {}
    worst = 0.0
    slow_cases = 0

    def cases():
        if fam == "e1":
            for d in family_e1(args):
                yield "e1", d
        elif fam == "e2":
            name, seed, values, lo, hi = args
            for d in family_e2(seed, values, lo, hi):
                yield "e2:" + name, d
        elif fam == "e5":
            for label, d in family_e5():
                yield "e5:" + label, d
        elif fam == "e3b":
            for label, d in list(family_e3b())[args[0]::args[1]]:
                yield "e3:" + label, d
        elif fam == "e6":
            for label, d in family_e6():
                yield "e6:" + label, d
        else:
            for label, d in list(family_e3(thorough))[args[0]::args[1]]:
                yield "e3:" + label, d

    for label, data in cases():
        acc.evals += 1
        if progress:
            with open(progress, "wb") as f:
                f.write(data[:4096] if isinstance(data, bytes) else data[1][:4096])
        if fam == "e6":
            kind, detail = run_sequence(*data)
            outcomes = {"sequence": kind or "ok"}
            if kind:
                acc.nontrivial += 1
                acc.violation({"fail": kind, "family": "e6", "label": label.split(":", 1)[1]},
                              f"{label}: {detail}", {"family": label, "data": data[1].hex(),
                                                      "thorough": thorough})
            else:
                acc.nontrivial += 1
            continue
        if fam == "e5":
            # each integration in a process of its own: which one balloons is part of the verdict
            outcomes = {}
            kind = detail = None
            for api in ("generic", "rdflib"):
                k1, d1, o1 = isolated(data, True, (api,))
                outcomes.update(o1)
                if k1:
                    acc.violation({"fail": k1, "family": "e5", "label": label.split(":", 1)[1],
                                   "api": api},
                                  f"{label} ({api} entry points): {d1} on input {data[:48].hex()}"
                                  f"{'...' if len(data) > 48 else ''} ({len(data)} bytes)",
                                  {"family": label, "data": data.hex(), "thorough": True})
            for v in outcomes.values():
                hist[v] = hist.get(v, 0) + 1
            acc.nontrivial += 1
            continue
        if fam == "e3b":
            kind, detail, outcomes = isolated(data, thorough)
        else:
            kind, detail, outcomes = run_one(data, thorough)
        for v in outcomes.values():
            hist[v] = hist.get(v, 0) + 1
        if any(v != "ok" for v in outcomes.values()) or not outcomes:
            acc.nontrivial += 1
        if kind in ("hang", "slow"):
            slow_cases += 1
        if kind:
            acc.violation({"fail": kind, "family": label.split(":")[0],
                           "label": label.split(":", 1)[1] if ":" in label else ""},
                          f"{label}: {detail} on input {data[:48].hex()}{'...' if len(data) > 48 else ''}"
                          f" ({len(data)} bytes)",
                          {"family": label, "data": data.hex() if len(data) <= 4096 else None,
                           "thorough": thorough})
        elif detail.endswith("ms"):
            worst = max(worst, float(detail[:-2]))
        if slow_cases >= 3:
            acc.extra["aborted"] = True  # every further case would burn the time budget
            break
    acc.extra.update({"hist": hist, "worst_ms": worst, "max_rss_growth_kb": MAX_GROWN})
    acc.sample({"family": fam, "example": (data[:24].hex() if acc.evals and isinstance(data, bytes)
                                           else "")}, cap=1)
    return acc.out()


def run(ctx) -> None:
    DR.ensure_rdflib_plugin()
    thorough = not ctx.quick
    jobs = []
    tmp = tempfile.mkdtemp(prefix="c17_")
    n2 = 1 + 256 + 65536
    for lo, hi in pool.split_range(n2, 16):
        jobs.append(("e1", ("all256", lo, hi, 2)))
    for n in range(3, (5 if ctx.quick else 6)):
        tot = len(STRUCT) ** n
        for lo, hi in pool.split_range(tot, 16 if n < 5 else 64):
            jobs.append(("e1", ("struct", lo, hi, n)))
    values = sorted(set(STRUCT) | {0x0B, 0x10, 0x18, 0x20, 0x48, 0x50, 0x72, 0x78}) if ctx.quick \
        else list(range(256))
    for name, seed in seeds():
        step = 24 if ctx.quick else 8
        for lo in range(0, len(seed) + 1, step):
            jobs.append(("e2", (name, seed, values, lo, lo + step)))
    for i in range(8):
        jobs.append(("e3", (i, 8)))
    jobs.append(("e5", ()))
    jobs.append(("e6", ()))
    for i in range(4):
        jobs.append(("e3b", (i, 4)))
    for kind, k in SCALING:
        jobs.append(("e4", (kind, k)))
    jobs = [(fam, args, thorough, os.path.join(tmp, f"p{i}")) for i, (fam, args) in enumerate(jobs)]
    ctxm = mp.get_context("fork")
    results = []
    deadline = 1500 if ctx.quick else 7200
    try:
        with ctxm.Pool(pool.WORKERS) as p:
            asyncs = [p.apply_async(shard, (j,)) for j in jobs]
            pending = dict(enumerate(asyncs))
            t0 = time.time()
            hung = None
            while pending and hung is None:
                time.sleep(0.2)
                now = time.time()
                for i in list(pending):
                    a = pending[i]
                    if a.ready():
                        del pending[i]
                        try:
                            results.append(a.get())
                            if results[-1].get("extra", {}).get("aborted"):
                                # inputs hang one after the other: no point in burning the
                                # budget on every remaining shard
                                ctx.coverage["aborted_after_hang"] = True
                                p.terminate()
                                pending.clear()
                                break
                        except Exception as e:  # noqa: BLE001  worker died / harness error
                            j = jobs[i]
                            data = open(j[3], "rb").read() if os.path.exists(j[3]) else b""
                            ctx.violation({"fail": "worker-died", "family": j[0]},
                                          f"worker died ({type(e).__name__}: {e}) while parsing "
                                          f"{data[:48].hex()}",
                                          {"family": j[0], "data": data.hex(),
                                           "thorough": thorough})
                        continue
                    pf = jobs[i][3]
                    if os.path.exists(pf) and now - os.path.getmtime(pf) > CASE_WALL_LIMIT:
                        hung = i
                        break
                if now - t0 > deadline:
                    hung = next(iter(pending), None)
            if hung is not None:
                j = jobs[hung]
                data = open(j[3], "rb").read() if os.path.exists(j[3]) else b""
                ctx.violation({"fail": "worker-hang", "family": j[0]},
                              f"a worker was stuck for more than {CASE_WALL_LIMIT:.0f}s on one "
                              f"input (not interruptible by the in-process watchdog): "
                              f"{data[:48].hex()} ({len(data)} bytes)",
                              {"family": j[0], "data": data.hex(), "thorough": thorough})
                ctx.coverage["aborted_after_hang"] = True
                p.terminate()
    finally:
        for f in os.listdir(tmp):
            os.unlink(os.path.join(tmp, f))
        os.rmdir(tmp)
    merged = pool.merge(results)
    ctx.add(merged)
    for e in merged["extras"]:
        if e.get("harness"):
            raise env.HarnessError(e["harness"])
    hist: dict = {}
    for e in merged["extras"]:
        for k, v in e.get("hist", {}).items():
            hist[k] = hist.get(k, 0) + v
    ctx.coverage.update(
        evaluations=merged["evals"],
        distinct_nontrivial=merged["nontrivial"],
        outcome_histogram=hist,
        scaling_cpu_seconds_n_and_4n={k: v for e in merged["extras"]
                                      for k, v in e.get("scaling", {}).items()},
        worst_case_cpu_ms=max((e.get("worst_ms", 0) for e in merged["extras"]), default=0),
        max_rss_growth_kb=max((e.get("max_rss_growth_kb", 0) for e in merged["extras"]), default=0),
        exhaustive=not ctx.coverage.get("aborted_after_hang", False)
        and not any(e.get("aborted") for e in merged["extras"]),
        samples=merged["samples"] or [{"note": "aborted"}],
        rule=(
            "E1: every byte string of length<=2 (all 256 values) and of length 3.."
            f"{4 if ctx.quick else 5} over a 17-byte structural alphabet; E2: for "
            f"{len(seeds())} seed streams every single-byte substitution "
            f"({'structural values' if ctx.quick else 'all 256 values'}), deletion, structural "
            "insertion, truncation, truncation+new header; E5: typed literals whose value is "
            "astronomically larger than their text (exponents, years), each in a process of its "
            "own; E3: hostile catalogue (declared lengths "
            "2^31-1/2^33/2^62, tables 4097/2^32-1, entry ids up to 2^32-1, nesting depth 1..1000, "
            "10^5..3*10^6 continuation bytes, up to 4*10^5 empty frames, options rows everywhere, 2000 "
            "frames, long almost-well-formed strings in every string field); E4: scaling probes "
            "(rows per frame, frames, entries, distinct statements at n and 4n: CPU time must not "
            "grow super-linearly); "
            "entry points: flat+grouped of both integrations from BytesIO and a non-seekable raw "
            "source (+ parse-to-graph and Graph.parse in thorough); per-case 10 s CPU-time interval-timer "
            "watchdog, peak-RSS growth < 24 MiB (+10 bytes per input byte, +2 KiB per real frame) after warm-up, parent-side worker watchdog; non-trivial = at "
            "least one entry point raised"
        ),
    )
    ctx.assumptions += ["'any byte string' is decided for the enumerated neighbourhoods only; "
                        "memory is measured as peak resident set growth"]


def replay(case: dict) -> list:
    DR.ensure_rdflib_plugin()
    if not case.get("data"):
        return []
    signal.signal(signal.SIGPROF, _alarm)
    kind, detail, _ = run_one(bytes.fromhex(case["data"]), case.get("thorough", False))
    return [f"{kind}: {detail}"] if kind else []
