"""C13 - stream header fidelity and stream-type validation."""
from __future__ import annotations

import io
import itertools

from mc import drivers as DR
from mc import jwire, pool
from mc import terms as T
from mc.terms import DEFAULT, I, L

LEVEL = "exploration"

LOGICAL = (0, 1, 2, 3, 4, 13, 14, 114)
TRIPLES_LT = {1, 3, 13}
QUADS_LT = {2, 4, 14, 114}
FLAT_LT = {1, 2}
GROUPED_LT = {3, 4, 13, 14, 114}


def pair_allowed(pt: int, lt: int) -> bool:
    if lt == 0 or pt == 0:
        return True
    return lt in (TRIPLES_LT if pt == 1 else QUADS_LT)


NAMES = (8, 9, 4000, 4096, 5000)
OTHERS = (0, 1, 150, 4096, 5000)
STREAM_NAMES = ("", "a", "é✓", "n" * 9, "x" * 200, "Cafe\u0301 \u212b")  # (the last: not NFC)
ST3 = (I("http://a/s"), I("http://a/p"), L("o"))
ST4 = (*ST3, DEFAULT)


# ---------------------------------------------------------------- part A
def header_points(extra_names: bool):
    for cls in DR.CLASSES:
        for lt in LOGICAL:
            for names, pf, dt in itertools.product(NAMES, OTHERS, OTHERS):
                if len({names, pf, dt}) < 3:
                    continue
                for flags in range(8):
                    g, r, ns = bool(flags & 1), bool(flags & 2), bool(flags & 4)
                    for dl in (True, False):
                        yield cls, lt, (names, pf, dt), g, r, ns, dl


def run_header(case: dict) -> list[tuple[str, str]]:
    from pyjelly.parse.ioutils import get_options_and_frames  # noqa: PLC0415
    from pyjelly.serialize.flows import ManualFrameFlow  # noqa: PLC0415

    cls, lt = case["cls"], case["logical"]
    preset = tuple(case["preset"])
    pt = DR.PT[cls]
    fails: list[tuple[str, str]] = []
    allowed = pair_allowed(pt, lt)
    try:
        opts = DR.make_options(cls, preset, 250, case["delimited"], lt,
                               generalized=case["generalized"], rdf_star=case["rdf_star"],
                               ns=case["ns"], stream_name=case["stream_name"])
        if case.get("req_version") is not None:
            from pyjelly.options import StreamParameters  # noqa: PLC0415

            opts.params = StreamParameters(
                generalized_statements=case["generalized"], rdf_star=case["rdf_star"],
                version=case["req_version"], delimited=case["delimited"],
                namespace_declarations=case["ns"], stream_name=case["stream_name"])
        if case.get("derived"):
            # the options object has a past: it configured another stream (logical type lt0)
            # before it was changed / copied with dataclasses.replace() for this one
            import dataclasses  # noqa: PLC0415

            lt0, how = case["derived"]
            opts.logical_type = lt0
            first = DR.g_stream(cls, opts) if case["api"] == "generic" else DR.r_stream(cls, opts)
            first.enroll()
            if how == "replace":
                opts = dataclasses.replace(opts, logical_type=lt)
            else:
                opts.logical_type = lt
        if case.get("flow", "manual") == "manual":
            opts.flow = ManualFrameFlow(logical_type=lt)
        stream = DR.g_stream(cls, opts) if case["api"] == "generic" else DR.r_stream(cls, opts)
    except Exception as e:  # noqa: BLE001
        if allowed:
            fails.append(("write-refused", f"allowed configuration refused: {type(e).__name__}: {e}"))
        return fails
    if not allowed:
        return [("forbidden-pair-written", f"forbidden pair physical {pt} / logical {lt} accepted "
                                           "by the writer")]
    stream.enroll()
    st = ST3 if cls == "triple" else ST4
    conv = T.st_to_generic if case["api"] == "generic" else T.st_to_rdflib
    if cls == "triple":
        stream.triple(conv(st))
    elif cls == "quad":
        stream.quad(conv(st))
    else:
        for _ in stream.graph(conv(st)[3], [conv(st)[:3]]):
            pass
    frame = stream.flow.to_stream_frame()
    data = DR.frames_to_bytes([frame], case["delimited"])
    frames = jwire.read_delimited(data) if case["delimited"] else jwire.read_single(data)
    wire = frames[0]["rows"][0]
    if wire["kind"] != "options":
        return [("no-options-row", "first row is not the options row")]
    w = wire["v"]
    want = {
        "stream_name": case["stream_name"], "physical_type": pt, "logical_type": lt,
        "generalized_statements": case["generalized"], "rdf_star": case["rdf_star"],
        "max_name_table_size": preset[0], "max_prefix_table_size": preset[1],
        "max_datatype_table_size": preset[2], "version": 2 if case["ns"] else 1,
    }
    if lt == 0 and case.get("flow") == "inferred" and w["logical_type"] == DR.FLAT_LT[cls]:
        # UNSPECIFIED + inferred flow: the serializer picks the flat default and says so
        want["logical_type"] = w["logical_type"]
    for k, v in want.items():
        if w[k] != v:
            fails.append(("wire-field", f"options row has {k}={w[k]!r}, writer was given {v!r}"))
    too_big = any(x > 4096 for x in preset)
    try:
        popts, fr = get_options_and_frames(io.BytesIO(data))
        list(fr)
    except Exception as e:  # noqa: BLE001
        popts = None
        if not too_big:
            fails.append(("read-refused", f"own header refused by the reader: "
                                          f"{type(e).__name__}: {e}"))
    if popts is not None:
        got = {
            "stream_name": popts.params.stream_name,
            "physical_type": popts.stream_types.physical_type,
            "logical_type": popts.stream_types.logical_type,
            "generalized_statements": popts.params.generalized_statements,
            "rdf_star": popts.params.rdf_star,
            "max_name_table_size": popts.lookup_preset.max_names,
            "max_prefix_table_size": popts.lookup_preset.max_prefixes,
            "max_datatype_table_size": popts.lookup_preset.max_datatypes,
            "version": popts.params.version,
            "namespace_declarations": popts.params.namespace_declarations,
            "delimited": popts.params.delimited,
        }
        want2 = {**want, "namespace_declarations": case["ns"], "delimited": case["delimited"]}
        for k, v in want2.items():
            if got[k] != v:
                fails.append(("reader-field", f"reader reports {k}={got[k]!r}, stream was written "
                                              f"with {v!r}"))
    # full parse must reject tables > 4096
    for reader in ("flat", "grouped"):
        try:
            read = DR.g_read if case["api"] == "generic" else DR.r_read
            read(data, reader)
            ok = True
        except Exception:  # noqa: BLE001
            ok = False
        if too_big and ok:
            fails.append(("oversize-accepted", f"{reader} parser accepted tables {preset} (>4096)"))
        if not too_big and not ok:
            fails.append(("read-refused", f"{reader} parser refused a valid own stream"))
    return fails


def filehelper_cases() -> list[dict]:
    return [{"part": "filehelpers", "api": api, "entry": entry, "cls": cls, "delimited": dl,
             "stream_name": name, "generalized": g, "rdf_star": r, "ns": ns}
            for api in ("generic", "rdflib") for entry in ("flat_to_file", "grouped_to_file")
            for cls in ("triple", "quad") for dl in (True, False)
            for name in ("", "sensor-é", "n" * 120) for g, r in ((False, False), (True, True))
            for ns in (False, True) if not (api == "rdflib" and g)] + [
        # the rdflib plugin (Graph.serialize) with explicit options, flags included
        {"part": "filehelpers", "api": "rdflib", "entry": entry, "cls": cls, "delimited": dl,
         "stream_name": "", "generalized": g, "rdf_star": r, "ns": False}
        for entry in ("graph_serialize_options", "graph_serialize_stream")
        for cls in ("triple", "quad") for dl in (True, False)
        for g in (False, True) for r in (False, True)]


def run_filehelper(case: dict) -> list[tuple[str, str]]:
    """Header written by the integrations' *_stream_to_file helpers, compared with the options
    they were given (whatever framing they decide on, the other fields are the caller's)."""
    from pyjelly.parse.ioutils import get_options_and_frames  # noqa: PLC0415

    cls = case["cls"]
    opts = DR.make_options(cls, (8, 2, 1), 250, case["delimited"], generalized=case["generalized"],
                           rdf_star=case["rdf_star"], ns=case["ns"],
                           stream_name=case["stream_name"])
    seq = [ST3 if cls == "triple" else ST4]
    try:
        data = (DR.g_write if case["api"] == "generic" else DR.r_write)(seq, cls, opts,
                                                                       case["entry"])
    except Exception:  # noqa: BLE001
        return []
    try:
        popts, fr = get_options_and_frames(io.BytesIO(data))
        list(fr)
    except Exception as e:  # noqa: BLE001
        return [("read-refused", f"{type(e).__name__}: {e}")]
    fails = []
    want = {"stream_name": case["stream_name"], "generalized_statements": case["generalized"],
            "rdf_star": case["rdf_star"], "namespace_declarations": case["ns"],
            "version": 2 if case["ns"] else 1}
    got = {"stream_name": popts.params.stream_name,
           "generalized_statements": popts.params.generalized_statements,
           "rdf_star": popts.params.rdf_star,
           "namespace_declarations": popts.params.namespace_declarations,
           "version": popts.params.version}
    for k, v in want.items():
        if got[k] != v:
            fails.append(("reader-field", f"{case['entry']} ({case['api']}): reader reports "
                                          f"{k}={got[k]!r}, the options said {v!r}"))
    sizes = (popts.lookup_preset.max_names, popts.lookup_preset.max_prefixes,
             popts.lookup_preset.max_datatypes)
    if sizes != (8, 2, 1):
        fails.append(("reader-field", f"table sizes {sizes}, the options said (8, 2, 1)"))
    return fails


def nobindings_cases() -> list[dict]:
    return [{"part": "nobindings", "ns": ns, "delimited": dl, "size": n, "bind": bind}
            for ns in (True, False) for dl in (True, False) for n in (0, 1, 3)
            for bind in ("none", "rdflib")]


def run_nobindings(case: dict) -> list[tuple[str, str]]:
    """Graph.serialize() of an rdflib Graph that has no namespace bound at all (or the usual
    defaults): the header's version follows the option, not what the graph happens to hold."""
    import rdflib  # noqa: PLC0415
    from pyjelly.parse.ioutils import get_options_and_frames  # noqa: PLC0415

    g = rdflib.Graph(bind_namespaces=case["bind"])
    for i in range(case["size"]):
        g.add((rdflib.URIRef(f"http://a/s{i}"), rdflib.URIRef("http://a/p"), rdflib.Literal(i)))
    opts = DR.make_options("triple", (8, 2, 2), 250, case["delimited"], generalized=False,
                           rdf_star=False, ns=case["ns"])
    try:
        data = g.serialize(format="jelly", options=opts, encoding="utf-8")
    except Exception as e:  # noqa: BLE001
        return [("write-refused", f"{type(e).__name__}: {e}")] if case["size"] else []
    if not data:
        return []
    frames = jwire.read_delimited(data) if case["delimited"] else jwire.read_single(data)
    w = frames[0]["rows"][0]["v"]
    fails = []
    want = 2 if case["ns"] else 1
    if w["version"] != want:
        fails.append(("wire-field", f"header declares version {w['version']}, the options ask "
                                    f"for namespace_declarations={case['ns']}"))
    try:
        popts, fr = get_options_and_frames(io.BytesIO(data))
        list(fr)
        if popts.params.namespace_declarations != case["ns"] or popts.params.version != want:
            fails.append(("reader-field", f"reader is told namespace_declarations="
                                          f"{popts.params.namespace_declarations} version="
                                          f"{popts.params.version}"))
    except Exception as e:  # noqa: BLE001
        fails.append(("read-refused", f"{type(e).__name__}: {e}"))
    return fails


def run_flowtype(case: dict) -> list[tuple[str, str]]:
    from pyjelly.parse.ioutils import get_options_and_frames  # noqa: PLC0415
    from pyjelly.serialize import flows  # noqa: PLC0415

    cls, lt = case["cls"], case["logical"]
    pt = DR.PT[cls]
    try:
        opts = DR.make_options(cls, (8, 0, 1), 250, True, lt, generalized=False, rdf_star=False,
                               flow=getattr(flows, case["flow_class"])())
        stream = DR.g_stream(cls, opts) if case["api"] == "generic" else DR.r_stream(cls, opts)
        stream.enroll()
        frame = stream.flow.to_stream_frame()
    except Exception:  # noqa: BLE001
        return []  # refused: fine
    data = DR.frames_to_bytes([frame], True)
    w = jwire.read_delimited(data)[0]["rows"][0]["v"]
    fails = []
    if not pair_allowed(w["physical_type"], w["logical_type"]):
        fails.append(("forbidden-pair-written",
                      f"header declares the forbidden pair physical {w['physical_type']} / logical "
                      f"{w['logical_type']}"))
    try:
        popts, fr = get_options_and_frames(io.BytesIO(data))
        list(fr)
        if popts.stream_types.logical_type != w["logical_type"]:
            fails.append(("reader-field", f"reader reports logical type "
                                          f"{popts.stream_types.logical_type}, wire has "
                                          f"{w['logical_type']}"))
    except Exception as e:  # noqa: BLE001
        fails.append(("read-refused", f"own header refused by the reader: {type(e).__name__}: {e}"))
    return fails


# --------------------------------------------------- hand-built streams (parse)
def handmade(pt: int, lt: int, *, names=8, pf=0, dt=0, version=1, delimited=True,
             two=False) -> bytes:
    opts = {"physical_type": pt, "logical_type": lt, "max_name_table_size": names,
            "max_prefix_table_size": pf, "max_datatype_table_size": dt, "version": version}
    rows = [jwire.mkrow("options", opts)]
    for i, n in enumerate(("http://a/s", "http://a/p")):
        rows.append(jwire.mkrow("name", {"id": 0, "value": n}))
    tr = {"s": ("iri", 0, 1), "p": ("iri", 0, 2), "o": ("literal", "o", None, None)}
    if pt == 2:
        rows.append(jwire.mkrow("quad", {**tr, "g": ("default",)}))
    elif pt == 3:
        rows += [jwire.mkrow("graph_start", {"g": ("default",)}), jwire.mkrow("triple", tr),
                 jwire.mkrow("graph_end", {})]
    else:
        rows.append(jwire.mkrow("triple", tr))
    fr = jwire.enc_frame(rows)
    return jwire.write_delimited([fr]) if delimited else fr


PARSERS = [(api, reader) for api in ("generic", "rdflib") for reader in ("flat", "grouped", "to_graph")]


def parse_with(api: str, reader: str, data: bytes, strict: bool | None = None,
               preread: bool = False):
    """-> ('ok', statements) | ('raised', exception name)."""
    try:
        if preread:
            # documented alternative: hand the already read (options, frames) pair to the parser
            from pyjelly.parse.ioutils import get_options_and_frames  # noqa: PLC0415

            inp = io.BytesIO(data)
            options, frames = get_options_and_frames(inp)
            if api == "generic":
                from pyjelly.integrations.generic import parse as gp  # noqa: PLC0415

                out = [T.ev_from_generic(x) for x in gp.parse_jelly_flat(
                    inp, frames=frames, options=options, logical_type_strict=bool(strict))]
            else:
                from pyjelly.integrations.rdflib import parse as rp  # noqa: PLC0415

                out = [T.ev_from_rdflib(x) for x in rp.parse_jelly_flat(
                    inp, frames=frames, options=options, logical_type_strict=bool(strict))]
            return "ok", sorted(DR.stmts_of(out), key=repr)
        if api == "generic":
            from pyjelly.integrations.generic import parse as gp  # noqa: PLC0415

            if reader == "flat":
                kw = {} if strict is None else {"logical_type_strict": strict}
                out = [T.ev_from_generic(x) for x in gp.parse_jelly_flat(io.BytesIO(data), **kw)]
            elif reader == "grouped":
                kw = {} if strict is None else {"logical_type_strict": strict}
                out = [e for evs in DR.g_read_grouped(data, **kw) for e in evs]
            else:
                out = DR.g_read(data, "to_graph")
        else:
            from pyjelly.integrations.rdflib import parse as rp  # noqa: PLC0415

            if reader == "flat":
                kw = {} if strict is None else {"logical_type_strict": strict}
                out = [T.ev_from_rdflib(x) for x in rp.parse_jelly_flat(io.BytesIO(data), **kw)]
            elif reader == "grouped":
                kw = {} if strict is None else {"logical_type_strict": strict}
                out = []
                for g in rp.parse_jelly_grouped(io.BytesIO(data), **kw):
                    out += DR._graph_events(g)
            else:
                out = DR.r_read(data, "to_graph")
    except Exception as e:  # noqa: BLE001
        return "raised", type(e).__name__
    return "ok", sorted(DR.stmts_of(out), key=repr)


def run_parse_case(case: dict) -> list[tuple[str, str]]:
    kind = case["kind"]
    fails: list[tuple[str, str]] = []
    if kind == "pair":
        pt, lt = case["physical"], case["logical"]
        # construction side
        from pyjelly.options import StreamTypes  # noqa: PLC0415

        try:
            StreamTypes(physical_type=pt, logical_type=lt)
            built = True
        except Exception:  # noqa: BLE001
            built = False
        if built != pair_allowed(pt, lt):
            fails.append(("pair-construction", f"StreamTypes({pt},{lt}) "
                          f"{'accepted' if built else 'refused'}, the spec says "
                          f"{'allowed' if pair_allowed(pt, lt) else 'forbidden'}"))
        for dl in (True, False):
            data = handmade(pt if pt else 1, lt, delimited=dl)
            if pt == 0:
                data = handmade(0, lt, delimited=dl)
            for api, reader in PARSERS:
                res, info = parse_with(api, reader, data)
                should_parse = pt != 0 and pair_allowed(pt, lt)
                if should_parse and res != "ok":
                    fails.append(("pair-parse", f"valid pair ({pt},{lt}) refused by {api} {reader}: "
                                                f"{info}"))
                if not should_parse and res == "ok":
                    fails.append(("pair-parse", f"{'unspecified physical type' if pt == 0 else 'forbidden pair'} "
                                                f"({pt},{lt}) accepted by {api} {reader}"))
    elif kind == "strict":
        pt, lt = case["physical"], case["logical"]
        data = handmade(pt, lt)
        base = {}
        for api in ("generic", "rdflib"):
            for reader in ("flat", "grouped", "flat-preread"):
                for strict in (True, False):
                    if reader == "flat-preread":
                        res, info = parse_with(api, "flat", data, strict, preread=True)
                    else:
                        res, info = parse_with(api, reader, data, strict)
                    if strict:
                        accept = lt in (FLAT_LT if reader.startswith("flat") else GROUPED_LT)
                        if accept != (res == "ok"):
                            fails.append(("strict-table", f"strict {reader} parser ({api}) "
                                          f"{'accepts' if res == 'ok' else 'rejects'} logical type {lt}"))
                    else:
                        if res != "ok":
                            fails.append(("nonstrict", f"non-strict {reader} parser ({api}) refuses "
                                                       f"logical type {lt}: {info}"))
                        else:
                            ref = parse_with(api, reader.split("-")[0], handmade(pt, 0), False)
                            if ref[1] != info:
                                fails.append(("nonstrict", f"non-strict {reader} result depends on "
                                                           f"the logical type {lt}"))
    elif kind == "limit":
        data = handmade(case["physical"], 0, names=case["names"], pf=case["pf"], dt=case["dt"],
                        version=case["version"], delimited=case["delimited"])
        for api, reader in PARSERS:
            res, info = parse_with(api, reader, data)
            if case["must_reject"] and res == "ok":
                fails.append(("limit-accepted", f"{api} {reader} accepts {case['why']}"))
            if not case["must_reject"] and res != "ok":
                fails.append(("limit-refused", f"{api} {reader} refuses a legal header "
                                               f"({case['why']}): {info}"))
    return fails


def parse_cases() -> list[dict]:
    out = []
    for pt in (0, 1, 2, 3):
        for lt in LOGICAL:
            out.append({"kind": "pair", "physical": pt, "logical": lt})
    for pt in (1, 2, 3):
        for lt in LOGICAL:
            if pair_allowed(pt, lt):
                out.append({"kind": "strict", "physical": pt, "logical": lt})
    for pt in (1, 2, 3):
        for dl in (True, False):
            base = {"kind": "limit", "physical": pt, "delimited": dl, "names": 8, "pf": 0, "dt": 0,
                    "version": 1}
            for n in range(0, 8):
                out.append({**base, "names": n, "must_reject": True, "why": f"name table {n} < 8"})
            for big in (4097, 2**32 - 1):
                for field in ("names", "pf", "dt"):
                    out.append({**base, field: big, "must_reject": True,
                                "why": f"{field} table {big} > 4096"})
            for field in ("names", "pf", "dt"):
                out.append({**base, field: 4096, "must_reject": False,
                            "why": f"{field} table 4096"})
            for v in (3, 99, 10000):
                out.append({**base, "version": v, "must_reject": True, "why": f"version {v}"})
            for v in (1, 2):
                out.append({**base, "version": v, "must_reject": False, "why": f"version {v}"})
    return out


def shard(job) -> dict:
    acc = pool.Acc()
    if job[0] == "header":
        _, api, lo, hi, names = job
        pts = list(header_points(False))[lo:hi]
        for cls, lt, preset, g, r, ns, dl in pts:
            rich = not (g or r) and preset in ((8, 0, 1), (4000, 150, 4096))
            for i, sname in enumerate(names if rich else names[:1]):
                case = {"part": "header", "api": api, "cls": cls, "logical": lt,
                        "preset": list(preset), "generalized": g, "rdf_star": r, "ns": ns,
                        "delimited": dl, "stream_name": sname}
                if i == 0:
                    variants = [None, 1, 2, 3, 99]
                else:
                    variants = [None]
                for rv, fm in [(v, "manual") for v in variants] + [(None, "inferred")]:
                    c = {**case, "req_version": rv, "flow": fm}
                    acc.evals += 1
                    if pair_allowed(DR.PT[cls], lt):
                        acc.nontrivial += 1
                    for kind, msg in run_header(c):
                        acc.violation({"part": "header", "fail": kind}, f"{msg} case={c}", c)
        if pts:
            acc.sample({"part": "header", "example": list(pts[0])}, cap=1)
    elif job[0] == "namesweep":
        # the options row passes through every length (the second byte of a non-delimited stream
        # is that length): name byte lengths 0…300 × both framings × small and default tables
        for api in ("generic", "rdflib"):
            for preset in ((128, 32, 32), (4000, 150, 32), (8, 0, 0)):
                for n in range(job[1], job[2]):
                    for dl in (True, False):
                        c = {"part": "header", "api": api, "cls": "triple", "logical": 1,
                             "preset": list(preset), "generalized": False, "rdf_star": False,
                             "ns": False, "delimited": dl, "stream_name": "n" * n,
                             "req_version": None, "flow": "inferred"}
                        acc.evals += 1
                        acc.nontrivial += 1
                        for kind, msg in run_header(c):
                            acc.violation({"part": "header", "fail": kind, "namesweep": True},
                                          f"{msg} case={c}", c)
    elif job[0] == "emptyframes":
        # without strict checking the logical type in the header never influences what is
        # parsed: streams that differ in that field only give the same groups
        from mc import jwire  # noqa: PLC0415

        for api in ("generic", "rdflib"):
            for pt in (1, 2):
                for shape in ("options-alone", "empty-middle", "entries-only-frame"):
                    seen = {}
                    for lt in [x for x in LOGICAL if pair_allowed(pt, x)]:
                        o = jwire.mkrow("options", {"physical_type": pt, "logical_type": lt,
                                                    "max_name_table_size": 8, "version": 1})
                        st = ({"s": ("bnode", "a"), "p": ("bnode", "b"), "o": ("bnode", "c")}
                              if pt == 1 else
                              {"s": ("bnode", "a"), "p": ("bnode", "b"), "o": ("bnode", "c"),
                               "g": ("bnode", "g")})
                        row = jwire.mkrow("triple" if pt == 1 else "quad", st)
                        nm = jwire.mkrow("name", {"id": 0, "value": "http://a/x"})
                        frames = {"options-alone": [[o], [row]],
                                  "empty-middle": [[o, row], [], [row]],
                                  "entries-only-frame": [[o, row], [nm], [row]]}[shape]
                        data = jwire.write_delimited([jwire.enc_frame(f) for f in frames])
                        acc.evals += 1
                        acc.nontrivial += 1
                        try:
                            import io as _io  # noqa: PLC0415

                            if api == "generic":
                                from pyjelly.integrations.generic.parse import (  # noqa: PLC0415
                                    parse_jelly_grouped,
                                )
                            else:
                                from pyjelly.integrations.rdflib.parse import (  # noqa: PLC0415
                                    parse_jelly_grouped,
                                )
                            groups = [len(list(c)) for c in parse_jelly_grouped(_io.BytesIO(data))]
                            seen[lt] = ("ok", tuple(groups))
                        except Exception as e:  # noqa: BLE001
                            seen[lt] = ("raised", type(e).__name__)
                    if len(set(seen.values())) > 1:
                        c = {"part": "emptyframes", "api": api, "physical": pt, "shape": shape}
                        acc.violation({"part": "emptyframes", "fail": "logical-type-matters"},
                                      f"{api} grouped parser, {shape}: result per declared logical "
                                      f"type {seen} case={c}", c)
    elif job[0] == "filehelpers":
        for c in filehelper_cases():
            acc.evals += 1
            acc.nontrivial += 1
            for kind, msg in run_filehelper(c):
                acc.violation({"part": "filehelpers", "fail": kind}, f"{msg} case={c}", c)
    elif job[0] == "nobindings":
        for c in nobindings_cases():
            acc.evals += 1
            acc.nontrivial += 1
            for kind, msg in run_nobindings(c):
                acc.violation({"part": "nobindings", "fail": kind}, f"{msg} case={c}", c)
    elif job[0] == "flowtype":
        # an explicit flow object with a logical type of its own next to options.logical_type:
        # whatever the writer makes of the two, it must refuse or write an allowed pair, and the
        # reader must be told what is on the wire
        from pyjelly.serialize import flows  # noqa: PLC0415

        for api in ("generic", "rdflib"):
            for cls in DR.CLASSES:
                for fname in ("FlatTriplesFrameFlow", "FlatQuadsFrameFlow", "GraphsFrameFlow",
                              "DatasetsFrameFlow"):
                    for lt in LOGICAL:
                        c = {"part": "flowtype", "api": api, "cls": cls, "flow_class": fname,
                             "logical": lt}
                        acc.evals += 1
                        acc.nontrivial += 1
                        for kind, msg in run_flowtype(c):
                            acc.violation({"part": "flowtype", "fail": kind}, f"{msg} case={c}", c)
    elif job[0] == "derived":
        for api in ("generic", "rdflib"):
            for cls in DR.CLASSES:
                ok = [x for x in LOGICAL if pair_allowed(DR.PT[cls], x)]
                for lt0 in ok:
                    for lt in ok:
                        for how in ("replace", "mutate"):
                            for ns in (False, True):
                                c = {"part": "header", "api": api, "cls": cls, "logical": lt,
                                     "preset": [8, 0, 1], "generalized": False, "rdf_star": False,
                                     "ns": ns, "delimited": True, "stream_name": "",
                                     "req_version": None, "flow": "inferred",
                                     "derived": [lt0, how]}
                                acc.evals += 1
                                acc.nontrivial += 1
                                for kind, msg in run_header(c):
                                    acc.violation({"part": "header", "fail": kind, "derived": how},
                                                  f"{msg} case={c}", c)
    else:
        for case in job[1]:
            acc.evals += 1
            acc.nontrivial += 1
            for kind, msg in run_parse_case(case):
                acc.violation({"part": case["kind"], "fail": kind}, f"{msg} case={case}",
                              {"part": "parse", **case})
        acc.sample({"part": "parse", "example": job[1][0]}, cap=1)
    return acc.out()


def run(ctx) -> None:
    DR.ensure_rdflib_plugin()
    n = len(list(header_points(False)))
    names = STREAM_NAMES if ctx.quick else STREAM_NAMES + tuple("n" * k for k in range(2, 301, 7))
    jobs = []
    for api in ("generic", "rdflib"):
        for lo, hi in pool.split_range(n, 24):
            jobs.append(("header", api, lo, hi, names))
    jobs.append(("derived",))
    jobs.append(("emptyframes",))
    jobs += [("namesweep", lo, lo + 43) for lo in range(0, 301, 43)]
    jobs.append(("flowtype",))
    jobs.append(("nobindings",))
    jobs.append(("filehelpers",))
    pc = parse_cases()
    jobs += [("parse", pc[i::8]) for i in range(8)]
    merged = pool.merge(pool.pmap(shard, jobs))
    ctx.add(merged)
    ctx.coverage.update(
        evaluations=merged["evals"],
        distinct_nontrivial=merged["nontrivial"],
        header_points=n,
        parse_cases=len(pc),
        exhaustive=True,
        samples=merged["samples"],
        rule=(
            "header: 3 stream classes x 8 logical types x presets (names{8,9,4000,4096,5000} x "
            "prefixes,datatypes{0,1,150,4096,5000}, all three distinct) x generalized x rdf_star x "
            "namespace_declarations x delimited x stream names x requested versions, written by "
            "the real Stream API (also from an options object that configured another stream "
            "before and was then mutated or copied with dataclasses.replace), header compared "
            "writer<->wire(jwire)<->reader field by field; "
            "parse: all 4x8 physical/logical pairs (construction + hand-built streams, 6 parsers), "
            "strict/non-strict acceptance table, table-size and version limits; non-trivial = "
            "allowed configuration"
        ),
    )


def replay(case: dict) -> list:
    DR.ensure_rdflib_plugin()
    if case.get("part") == "header":
        return [m for _, m in run_header(case)]
    if case.get("part") == "filehelpers":
        return [m for _, m in run_filehelper(case)]
    if case.get("part") == "nobindings":
        return [m for _, m in run_nobindings(case)]
    if case.get("part") == "flowtype":
        return [m for _, m in run_flowtype(case)]
    if case.get("part") == "emptyframes":
        return [v["what"] for v in shard(("emptyframes",))["violations"] if v["case"] == case]
    return [m for _, m in run_parse_case(case)]
