"""C14 - namespace declarations round-trip and never affect statements."""
from __future__ import annotations

import io
import itertools

from mc import alphabets as AL
from mc import drivers as DR
from mc import jspec, jwire, pool
from mc import terms as T
from mc.terms import B, DEFAULT, I, L

LEVEL = "exploration"

BINDINGS = [("ex", "http://a/"), ("", "urn:x"), ("é", "http://é/#"), ("n", "http://b#"),
            ("q", "http://a/b#c"),
            # a second label for an IRI that is already bound (same namespace declared twice)
            ("ex2", "http://a/"), ("n2", "http://b#"),
            # another prefix for namespaces that rdflib binds by default (dcterms:, xsd:)
            ("dct", "http://purl.org/dc/terms/"), ("xs", "http://www.w3.org/2001/XMLSchema#"),
            # a namespace without '/' or '#' (terms below live in it and in "urn:x")
            ("u", "urn:uuid:"),
            # labels that end in a colon (next to the same label without it / the empty label)
            ("ex:", "http://c.example/"), (":", "http://d.example/"),
            # label and namespace that are not in Unicode normal form C
            ("e\u0301", "http://e\u0301.example/u\u0308\u212b#")]
# terms inside separator-less namespaces; local parts begin with characters of the namespace
URN_TRIPLE = (I("urn:uuid:d9b2"), I("urn:xurn:x"), I("urn:uuid:9d"))
NBASE = 5
TRIPLES = [
    (I("http://a/x"), I("http://a/y"), L("x")),
    (I("http://b#x"), I("http://b#y"), I("http://b#x")),
    (I("urn:x"), I("http://a/b#c"), I("http://é/#ü")),
    # (IRIs that are a whole namespace: their local name is empty)
    (I("http://a/"), I("http://b#"), L("y")),
]
GNAMES = [DEFAULT, I("http://a/g"), B("b"), I("http://b#")]
PRESETS = [(8, 0, 0), (8, 1, 0), (8, 3, 0), (8, 4, 0)]


def binding_lists(maxlen: int) -> list:
    out = [()]
    for k in range(1, maxlen + 1):
        out += list(itertools.permutations(range(NBASE), k))
    # the same namespace IRI declared twice with another declaration in between
    for x, alias in ((0, 5), (3, 6)):
        for y in range(NBASE):
            if y != x:
                out.append((x, y, alias))
    out += [(7,), (8,), (7, 0), (0, 8), (7, 8), (9,), (1, 9), (10,), (0, 10), (11, 1),
            (10, 11), (12,), (2, 12)]
    return out


def stmt_seqs(cls: str) -> list:
    alpha = TRIPLES if cls == "triple" else [(*t, g) for t, g in zip(TRIPLES, GNAMES)]
    out = [[]]
    for k in (1, 2):
        out += [list(p) for p in itertools.product(alpha, repeat=k)]
    urn = URN_TRIPLE if cls == "triple" else (*URN_TRIPLE, I("urn:uuid:u"))
    out += [[urn], [alpha[0], urn], [urn, alpha[2]]]
    return out


def write(api: str, cls: str, seq, bindings, preset, ns: bool) -> bytes:
    opts = DR.make_options(cls, preset, 2, True, ns=ns, generalized=False, rdf_star=False)
    if api == "generic":
        return DR.g_write(seq, cls, opts, "stream_frames_sink", bindings=bindings)
    g = r_source(cls, seq, bindings)
    out = io.BytesIO()
    g.serialize(destination=out, format="jelly", stream=DR.r_stream(cls, opts), options=opts)
    return out.getvalue()


def r_source(cls: str, seq, bindings):
    import rdflib  # noqa: PLC0415

    g = rdflib.Graph() if cls == "triple" else rdflib.Dataset()
    for p, iri in bindings:
        g.bind(p, rdflib.URIRef(iri))
    for st in seq:
        if cls == "triple":
            g.add(tuple(T.to_rdflib(t) for t in st))
        else:
            s, p, o, gn = (T.to_rdflib(t) for t in st)
            g.add((s, p, o, g.get_context(gn)))
    return g


def run_dataset_as_triples(case: dict) -> list[tuple[str, str]]:
    """An rdflib Dataset written as a stream of (unnamed) graphs: TripleStream, logical GRAPHS."""
    import rdflib  # noqa: PLC0415

    preset = tuple(case["preset"])
    bindings = [BINDINGS[i] for i in case["bindings"]]
    seq = [T.from_json(s) for s in case["seq"]]
    src = r_source("quad", seq, bindings)
    opts = DR.make_options("triple", preset, 2, True, 3, ns=True, generalized=False,
                           rdf_star=False)
    out = io.BytesIO()
    try:
        src.serialize(destination=out, format="jelly", stream=DR.r_stream("triple", opts),
                      options=opts)
        _, per = jspec.decode_frames(jwire.read_delimited(out.getvalue()))
    except Exception as e:  # noqa: BLE001
        return [("dataset-as-graphs-raised", f"{type(e).__name__}: {e}")]
    wire_ns = [(n, i[1]) for n, i in jspec.namespaces(per)]
    src_ns = [(p, str(u)) for p, u in src.namespaces()]
    fails = []
    if wire_ns != src_ns:
        fails.append(("wire-declarations", f"Dataset written as a GRAPHS-logical TRIPLES stream "
                                           f"declares {wire_ns}, source bound {src_ns}"))
    got = {T.norm_st(x) for x in jspec.statements(per)}
    if got != {T.norm_st(x[:3]) for x in seq}:
        fails.append(("statements-changed", f"Dataset as graphs: triples {got}"))
    return fails


def run_case(case: dict) -> list[tuple[str, str]]:
    if case.get("variant") == "dataset-as-triples":
        return run_dataset_as_triples(case)
    api, cls = case["api"], case["cls"]
    preset = tuple(case["preset"])
    bindings = [BINDINGS[i] for i in case["bindings"]]
    seq = [T.from_json(s) for s in case["seq"]]
    fails: list[tuple[str, str]] = []
    expect_st = T.norm_seq(seq)
    as_set = api == "rdflib"  # rdflib containers are sets: its iteration order, not pyjelly's

    def same_statements(got) -> bool:
        return (set(got) == set(expect_st)) if as_set else got == expect_st

    try:
        on = write(api, cls, seq, bindings, preset, True)
        off = write(api, cls, seq, bindings, preset, False)
    except Exception as e:  # noqa: BLE001
        return [("write-raised", f"serialization raised {type(e).__name__}: {e}")]
    # --- what is on the wire (reference decoder)
    try:
        d_on, per_on = jspec.decode_frames(jwire.read_delimited(on))
        d_off, per_off = jspec.decode_frames(jwire.read_delimited(off))
    except (jspec.SpecViolation, jwire.WireError) as e:
        return [("invalid-stream", f"stream with namespace option not valid: {e}")]
    wire_ns = [(n, i[1]) for n, i in jspec.namespaces(per_on)]
    if api == "generic":
        src_ns = list(bindings)
    else:
        src_ns = [(p, str(u)) for p, u in r_source(cls, seq, bindings).namespaces()]
    if wire_ns != src_ns:
        fails.append(("wire-declarations", f"declarations on the wire {wire_ns} != source bindings "
                                           f"{src_ns}"))
    if d_on.options["version"] != 2:
        fails.append(("version", f"declarations on but version {d_on.options['version']}"))
    if jspec.namespaces(per_off):
        fails.append(("off-but-written", f"option off but declarations written: "
                                         f"{jspec.namespaces(per_off)}"))
    if d_off.options["version"] != 1:
        fails.append(("version", f"declarations off but version {d_off.options['version']}"))
    # --- what the readers deliver
    read = DR.g_read if api == "generic" else DR.r_read
    user = [(p, i) for p, i in bindings]
    if api == "rdflib":
        user = [b for b in user if b in src_ns]  # rdflib itself keeps one prefix per namespace
    fails += grouped_twice(api, cls, seq, bindings, preset, src_ns, expect_st, as_set)
    for reader in ("flat", "to_graph", "grouped") + (("sink_parse",) if api == "generic" else
                                                      ("graph_parse",)):
        try:
            kw = {"quads": cls != "triple"} if reader == "graph_parse" else {}
            ev_on = read(on, reader, **kw)
            ev_off = read(off, reader, **kw)
        except Exception as e:  # noqa: BLE001
            fails.append(("read-raised", f"{reader} raised {type(e).__name__}: {e}"))
            continue
        st_on, st_off = DR.stmts_of(ev_on), DR.stmts_of(ev_off)
        if not same_statements(st_on) or not same_statements(st_off):
            fails.append(("statements-changed",
                          f"{reader}: statements with declarations on {st_on} / off {st_off} / "
                          f"input {expect_st}"))
        if reader == "flat":
            got_ns = [(p, i[1] if isinstance(i, tuple) else i) for p, i in DR.ns_of(ev_on)]
            if [x for x in got_ns if x in user or api == "generic"] != (
                    user if api == "rdflib" else src_ns):
                fails.append(("reader-declarations",
                              f"flat parser delivers declarations {got_ns}, source bound {src_ns}"))
            if DR.ns_of(ev_off):
                fails.append(("off-but-delivered", f"declarations delivered with option off"))
        elif api == "generic":
            # sinks filled by the other generic readers must hold the bindings as well
            got_ns = [(p, i[1] if isinstance(i, tuple) else i) for p, i in DR.ns_of(ev_on)]
            want = list(dict(src_ns).items()) if reader != "grouped" else src_ns
            if got_ns != want and dict(got_ns) != dict(src_ns):
                fails.append(("reader-declarations",
                              f"{reader}: sinks hold bindings {got_ns}, source bound {src_ns}"))
    # --- sinks / graphs hold the bindings; re-serialisation reproduces the declarations
    try:
        if api == "generic":
            from pyjelly.integrations.generic import parse as gp  # noqa: PLC0415

            sink = gp.parse_jelly_to_graph(io.BytesIO(on))
            got = [(p, T.from_generic(i)) for p, i in sink.namespaces]
            if got != [(p, ("I", i)) for p, i in user]:
                fails.append(("sink-namespaces", f"sink namespaces {got} != bound {user}"))
            opts = DR.make_options(cls, preset, 2, True, ns=True, generalized=False,
                                   rdf_star=False)
            from pyjelly.integrations.generic import serialize as gser  # noqa: PLC0415

            again = DR.frames_to_bytes(gser.stream_frames(DR.g_stream(cls, opts), sink), True)
        else:
            import rdflib  # noqa: PLC0415
            from pyjelly.integrations.rdflib import parse as rp  # noqa: PLC0415

            # graphs/datasets yielded by the grouped parser (the one holding the declaration
            # rows must carry the bindings)
            have_grouped: set = set()
            for gg in rp.parse_jelly_grouped(io.BytesIO(on)):
                have_grouped |= {(p, str(u)) for p, u in gg.namespaces()}
            missing = [b for b in user if b not in have_grouped]
            if missing:
                fails.append(("grouped-namespaces", f"graphs yielded by the grouped parser lack "
                                                    f"bindings {missing}"))
            g = rdflib.Graph() if cls == "triple" else rdflib.Dataset()
            list(g.namespaces())  # rdflib binds its defaults lazily: do it before parsing
            g.parse(io.BytesIO(on), format="jelly")
            have = {(p, str(u)) for p, u in g.namespaces()}
            missing = [b for b in user if b not in have]
            if missing:
                fails.append(("graph-namespaces", f"parsed graph lacks bindings {missing}"))
            opts = DR.make_options(cls, preset, 2, True, ns=True, generalized=False,
                                   rdf_star=False)
            out = io.BytesIO()
            g.serialize(destination=out, format="jelly", stream=DR.r_stream(cls, opts),
                        options=opts)
            again = out.getvalue()
        _, per2 = jspec.decode_frames(jwire.read_delimited(again))
        ns2 = [(n, i[1]) for n, i in jspec.namespaces(per2)]
        same = (ns2 == wire_ns) if api == "generic" else (set(ns2) == set(wire_ns))
        if not same:
            fails.append(("reserialize", f"re-serialising what was read declares {ns2}, "
                                         f"original declared {wire_ns}"))
    except Exception as e:  # noqa: BLE001
        fails.append(("reserialize-raised", f"{type(e).__name__}: {e}"))
    return fails


def grouped_twice(api, cls, seq, bindings, preset, src_ns, expect_st, as_set) -> list:
    """Two sinks/graphs with the same bindings through one shared stream: the declarations are
    written once per sink and must be delivered correctly each time."""
    if len(seq) != 2 or not bindings:
        return []
    fails = _grouped(api, cls, [[st] for st in seq], bindings, preset, src_ns, expect_st, as_set,
                     "two sinks with the same bindings")
    # ... and when the first container holds bindings but no statement at all
    fails += _grouped(api, cls, [[], list(seq)], bindings, preset, src_ns, expect_st, as_set,
                      "an empty first sink with bindings, then a sink with statements")
    fails += grouped_distinct(api, cls, seq, preset)
    if api == "generic":
        fails += sink_reuse(cls, seq, bindings, preset)
    return fails


def sink_reuse(cls, seq, bindings, preset) -> list:
    """One GenericStatementSink reads three files in a row with its parse() method: after each
    it holds that file's bindings, not those of the files before."""
    from pyjelly.integrations.generic import generic_sink as gs  # noqa: PLC0415

    other = [("zz", "http://other.example/"), (bindings[0][0], "http://rebound.example/#")]
    files = [(list(bindings), True), (other, True), (list(bindings), False)]
    sink = gs.GenericStatementSink()
    for k, (binds, ns) in enumerate(files):
        opts = DR.make_options(cls, preset, 250, True, ns=ns, generalized=False, rdf_star=False)
        data = DR.g_write(seq, cls, opts, "stream_frames_sink", bindings=binds)
        try:
            sink.parse(io.BytesIO(data))
        except Exception as e:  # noqa: BLE001
            return [("sink-reuse-raised", f"{type(e).__name__}: {e}")]
        got = [(p, T.from_generic(i)[1]) for p, i in sink.namespaces]
        want = list(binds) if ns else []
        if got != want:
            return [("sink-reuse", f"a sink re-used for file {k + 1} (bindings {want}) holds {got}")]
    return []


def grouped_distinct(api, cls, seq, preset) -> list:
    """Two containers that bind the same labels to different namespaces, through one grouped
    stream: each container read back by the grouped parser holds its own bindings."""
    b1 = [("ex", "http://a/"), ("only1", "http://one.example/")]
    b2 = [("ex", "http://b#"), ("only2", "http://two.example/")]
    opts = DR.make_options(cls, preset, 250, True, ns=True, generalized=False, rdf_star=False)
    out = io.BytesIO()
    try:
        if api == "generic":
            from pyjelly.integrations.generic import parse as gp  # noqa: PLC0415
            from pyjelly.integrations.generic import serialize as gser  # noqa: PLC0415

            gser.grouped_stream_to_file(
                (DR.g_sink([st], b) for st, b in zip(seq, (b1, b2))), out, options=opts)
            got = [{p: T.from_generic(i)[1] for p, i in s.namespaces}
                   for s in gp.parse_jelly_grouped(io.BytesIO(out.getvalue()))]
        else:
            import rdflib  # noqa: PLC0415
            from pyjelly.integrations.rdflib import parse as rp  # noqa: PLC0415
            from pyjelly.integrations.rdflib import serialize as rser  # noqa: PLC0415

            rser.grouped_stream_to_file(
                (r_source(cls, [st], b) for st, b in zip(seq, (b1, b2))), out, options=opts)
            kw = {"graph_factory": lambda: rdflib.Graph(bind_namespaces="none")} \
                if cls == "triple" else {}
            got = [{p: str(u) for p, u in g.namespaces()}
                   for g in rp.parse_jelly_grouped(io.BytesIO(out.getvalue()), **kw)]
    except Exception as e:  # noqa: BLE001
        return [("grouped-distinct-raised", f"{type(e).__name__}: {e}")]
    fails = []
    for k, want in enumerate((dict(b1), dict(b2))):
        if k >= len(got):
            fails.append(("grouped-distinct", f"container {k} was not read back"))
            continue
        for p, iri in want.items():
            if got[k].get(p) != iri:
                fails.append(("grouped-distinct",
                              f"container {k} bound {p!r} to {iri!r}; read back through the "
                              f"grouped parser it has {got[k].get(p)!r} ({api})"))
        other = ("only2", "only1")[k]
        if cls == "triple" and other in got[k]:
            fails.append(("grouped-distinct", f"container {k} read back with the other "
                                              f"container's binding {other!r} ({api})"))
    return fails[:2]


def _grouped(api, cls, groups, bindings, preset, src_ns, expect_st, as_set, what) -> list:
    opts = DR.make_options(cls, preset, 250, True, ns=True, generalized=False, rdf_star=False)
    out = io.BytesIO()
    try:
        if api == "generic":
            from pyjelly.integrations.generic import serialize as gser  # noqa: PLC0415

            gser.grouped_stream_to_file((DR.g_sink(g, bindings) for g in groups), out,
                                        options=opts)
        else:
            from pyjelly.integrations.rdflib import serialize as rser  # noqa: PLC0415

            rser.grouped_stream_to_file((r_source(cls, g, bindings) for g in groups), out,
                                        options=opts)
    except Exception as e:  # noqa: BLE001
        if not groups[0]:
            return []  # (an empty first container may be refused: the entry point guesses the
            #            stream class from it; only what is written is judged)
        return [("grouped-twice-raised", f"{what}: {type(e).__name__}: {e}")]
    try:
        _, per = jspec.decode_frames(jwire.read_delimited(out.getvalue()))
    except (jspec.SpecViolation, jwire.WireError) as e:
        return [("grouped-twice", f"{what}: output rejected by the reference decoder: {e}")]
    ns = [(n, i[1]) for n, i in jspec.namespaces(per)]
    if ns != src_ns + src_ns:
        return [("grouped-twice", f"{what} (bindings {src_ns}) written through one stream "
                                  f"declare {ns}")]
    got = [T.norm_st(x) for x in jspec.statements(per)]
    if (set(got) != set(expect_st)) if as_set else (got != expect_st):
        return [("grouped-twice", f"{what}: statements changed: {got} vs {expect_st}")]
    return []


def shard(job) -> dict:
    api, cls, pi, blists, lo, hi = job
    acc = pool.Acc()
    preset = PRESETS[pi]
    seqs = stmt_seqs(cls)
    for bl in blists[lo:hi]:
        for seq in seqs:
            if not all(AL.fits(st, preset) for st in seq):
                acc.counters["out_of_domain"] += 1
                continue
            case = {"api": api, "cls": cls, "preset": list(preset), "bindings": list(bl),
                    "seq": [list(s) for s in seq]}
            acc.evals += 1
            if bl and seq:
                acc.nontrivial += 1
            for kind, msg in run_case(case):
                acc.violation({"fail": kind, "api": api}, f"{msg} case={case}", case)
            if api == "rdflib" and cls == "quad" and seq:
                c2 = {**case, "variant": "dataset-as-triples"}
                acc.evals += 1
                for kind, msg in run_case(c2):
                    acc.violation({"fail": kind, "api": api, "variant": "dataset-as-triples"},
                                  f"{msg} case={c2}", c2)
    acc.sample({"api": api, "cls": cls, "preset": preset,
                "bindings": [BINDINGS[i] for i in blists[lo]] if lo < len(blists) else []}, cap=1)
    return acc.out()


def run(ctx) -> None:
    DR.ensure_rdflib_plugin()
    blists = binding_lists(2 if ctx.quick else 3)
    jobs = []
    for api in ("generic", "rdflib"):
        for cls in DR.CLASSES:
            for pi in range(len(PRESETS)):
                for lo, hi in pool.split_range(len(blists), 2 if ctx.quick else 6):
                    jobs.append((api, cls, pi, blists, lo, hi))
    merged = pool.merge(pool.pmap(shard, jobs))
    ctx.add(merged)
    ctx.coverage.update(
        evaluations=merged["evals"],
        distinct_nontrivial=merged["nontrivial"],
        binding_lists=len(blists),
        out_of_domain=merged["counters"].get("out_of_domain", 0),
        exhaustive=True,
        samples=merged["samples"],
        rule=(
            f"all ordered binding lists of length<={2 if ctx.quick else 3} over 5 bindings (empty "
            "prefix, IRIs with/without separators, non-ASCII) x all statement sequences of length"
            "<=2 over 3 statements sharing those prefixes x {generic, rdflib} x {TRIPLES, QUADS, "
            "GRAPHS} x prefix table {0,1,3,4} x declarations on/off; non-trivial = at least one "
            "binding and one statement"
        ),
    )


def replay(case: dict) -> list:
    DR.ensure_rdflib_plugin()
    return [m for _, m in run_case(case)]
