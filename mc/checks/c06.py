"""C06 - no accepted serializer configuration silently drops statements.

The full configuration lattice is enumerated: stream class x 8 logical types x
delimited x frame size x flow (inferred + each FrameFlow class) x entry point x
three non-empty inputs.  Outcome per point: raised | complete | VIOLATION.
"""
from __future__ import annotations

import io

from mc import drivers as DR
from mc import jspec, jwire, pool
from mc import terms as T
from mc.terms import B, DEFAULT, I, L

LEVEL = "exploration"

LOGICAL = (0, 1, 2, 3, 4, 13, 14, 114)
FLOWS = ("inferred", "ManualFrameFlow", "BoundedFrameFlow", "FlatTriplesFrameFlow",
         "FlatQuadsFrameFlow", "GraphsFrameFlow", "DatasetsFrameFlow")
G_ENTRIES = ("stream_frames_gen", "stream_frames_sink", "flat_to_file", "grouped_to_file")
R_ENTRIES = ("stream_frames_gen", "stream_frames_graph", "flat_to_file", "grouped_to_file",
             "graph_serialize_options", "graph_serialize_stream")
SELF_CHOOSING = ("flat_to_file", "grouped_to_file", "graph_serialize_options")

T3 = [
    (I("http://a/x"), I("http://a/p"), L("1")),
    (I("http://a/x"), I("http://a/p"), L("2")),
    (I("http://b#y"), I("http://a/p"), I("http://a/x")),
    (B("b"), I("http://a/q"), L("x", "en")),
    (I("http://a/x"), I("http://a/q"), B("b")),
]
G5 = [DEFAULT, DEFAULT, I("http://a/g"), I("http://a/g"), B("g")]
T4 = [(*t, g) for t, g in zip(T3, G5)]
INPUTS = ("one", "five", "three_groups")
# more namespace bindings than a small frame holds rows
MANY_BINDINGS = tuple((f"p{i}", f"http://ns{i}.example/v#") for i in range(12))
HUGE = 3_000_000  # a literal of 3 MB: frames between 2 and 4 MiB


def input_for(kind: str, arity: int) -> list[list]:
    """A list of groups (graphs/datasets); flat entry points get the concatenation."""
    base = T3 if arity == 3 else T4
    if kind == "many":
        # more rows than any internal cap such as 65536 (one frame when non-delimited)
        out = []
        for i in range(70_000):
            st = (I(f"http://a/s{i % 50}"), I("http://a/p"), L(str(i)))
            out.append(st if arity == 3 else (*st, I("http://a/g")))
        return [out]
    if kind == "many_graphs":
        # more quads than any batch size, a handful of graph names that keep coming back
        gs = [I("http://a/g1"), DEFAULT, I("http://a/g2"), B("g")]
        return [[(I(f"http://a/s{i % 50}"), I("http://a/p"), L(str(i)), gs[(i // 3) % 4])
                 for i in range(6000)]]
    if kind == "wrong_arity":
        # triples handed to a quad/graph stream, quads to a triple stream: cannot be honoured
        # as given (a TRIPLES stream may legitimately drop the graph names, see run_case)
        other = T4 if arity == 3 else T3
        return [list(other)]
    if kind == "huge":
        st = (I("http://a/x"), I("http://a/p"), L("z" * HUGE))
        return [[st if arity == 3 else (*st, I("http://a/g"))]]
    if kind == "same_in_groups":
        # the same triple in consecutive graphs / datasets (and, flat, as immediate duplicates)
        if arity == 3:
            return [[T3[0]], [T3[0]], [T3[0], T3[1]]]
        return [[(*T3[0], I("http://a/g"))], [(*T3[0], B("g"))],
                [(*T3[0], DEFAULT), (*T3[1], DEFAULT)]]
    if kind == "recurring_graph":
        # graph names come back after another graph was written in between (g1, g2, g1, D, g2)
        if arity == 3:
            return [[T3[0]], [T3[1]], [T3[2]]]
        gs = [I("http://a/g"), B("g"), I("http://a/g"), DEFAULT, B("g")]
        return [[(*t, g) for t, g in zip(T3, gs)]]
    if kind == "one":
        return [base[:1]]
    if kind == "five":
        return [list(base)]
    return [base[:2], base[2:3], base[3:]]


def make_flow(name: str, lt: int, fs: int):
    from pyjelly.serialize import flows  # noqa: PLC0415

    cls = getattr(flows, name)
    if issubclass(cls, flows.BoundedFrameFlow):
        return cls(logical_type=lt, frame_size=fs if fs != 250 else 100_000)
    return cls(logical_type=lt)


def build(case: dict, opts=None, poison: bool = False):
    """Return (bytes, delimited_written, stream or None). Raises on refusal."""
    api, cls, entry = case["api"], case["cls"], case["entry"]
    lt, dl, fs, flow_name = case["logical"], case["delimited"], case["frame_size"], case["flow"]
    arity = 3 if cls == "triple" else 4
    binds = MANY_BINDINGS if case.get("bindings") else ()
    groups = input_for(case["input"], arity)
    if poison:  # an input whose last statement is unencodable (the call must fail half-way)
        groups = [list(g) for g in groups]
        bad = list(groups[-1][-1])
        bad[2] = ("X",)
        groups[-1].append(tuple(bad))
    flat = [s for g in groups for s in g]
    if opts is None:
        flow = None if flow_name == "inferred" else make_flow(flow_name, lt, fs)
        opts = DR.make_options(cls, (8, 4, 2), fs, dl, lt, generalized=(api == "generic"),
                               rdf_star=(api == "generic"), flow=flow,
                               ns=bool(case.get("bindings")))
    stream = None
    if api == "generic":
        from pyjelly.integrations.generic import serialize as ser  # noqa: PLC0415

        if entry == "stream_frames_gen":
            stream = DR.g_stream(cls, opts)
            stmts = [T.st_to_generic(s) for s in flat]
            return DR.frames_to_bytes(ser.stream_frames(stream, (s for s in stmts)), dl), dl, stream
        if entry == "stream_frames_sink":
            stream = DR.g_stream(cls, opts)
            return DR.frames_to_bytes(ser.stream_frames(stream, DR.g_sink(flat, binds)), dl), dl, \
                stream
        out = io.BytesIO()
        if entry == "flat_to_file":
            stmts = [T.st_to_generic(s) for s in flat]
            ser.flat_stream_to_file((s for s in stmts), out, opts)
        elif case.get("window"):
            # the caller's generator re-loads ONE sink object for every group and yields it again
            def windows():
                sink = DR.g_sink([], binds)
                for g in groups:
                    blob = io.BytesIO()
                    DR.g_sink(g, binds).serialize(blob)
                    sink.parse(io.BytesIO(blob.getvalue()))
                    yield sink

            ser.grouped_stream_to_file(windows(), out, options=opts)
        else:
            ser.grouped_stream_to_file((DR.g_sink(g, binds) for g in groups), out, options=opts)
        return out.getvalue(), True, None
    from pyjelly.integrations.rdflib import serialize as ser  # noqa: PLC0415

    empty = DR.EMPTY_GRAPHS if case.get("empty_graphs") else ()
    order = case.get("empty_graphs") or None  # "empty-first" / "empty-last"
    if order == "empty-default-union":
        order = "default-union"
    if entry == "stream_frames_gen":
        stream = DR.r_stream(cls, opts)
        stmts = [T.st_to_rdflib(s) for s in flat]
        return DR.frames_to_bytes(ser.stream_frames(stream, (s for s in stmts)), dl), dl, stream
    if entry == "stream_frames_graph":
        stream = DR.r_stream(cls, opts)
        return DR.frames_to_bytes(ser.stream_frames(stream, DR.r_graph(flat, binds, empty, order)), dl), \
            dl, stream
    out = io.BytesIO()
    if entry == "flat_to_file":
        stmts = [T.st_to_rdflib(s) for s in flat]
        ser.flat_stream_to_file((s for s in stmts), out, opts)
        return out.getvalue(), True, None
    if entry == "grouped_to_file" and case.get("window"):
        # one rdflib container object, emptied and filled again for every group
        def windows():
            box = DR.r_graph(groups[0], binds, empty, order)
            for i, g in enumerate(groups):
                if i:
                    box.remove((None, None, None, None) if arity == 4 else (None, None, None))
                    for st in g:
                        terms = [T.to_rdflib(t) for t in st]
                        if arity == 4:
                            terms[3] = box.get_context(terms[3])
                        box.add(tuple(terms))
                yield box

        ser.grouped_stream_to_file(windows(), out, options=opts)
        return out.getvalue(), True, None
    if entry == "grouped_to_file":
        ser.grouped_stream_to_file((DR.r_graph(g, binds, empty, order) for g in groups), out, options=opts)
        return out.getvalue(), True, None
    g = DR.r_graph(flat, binds, empty, order)
    if entry == "graph_serialize_options":
        g.serialize(destination=out, format="jelly", options=opts)
        return out.getvalue(), dl, None
    stream = DR.r_stream(cls, opts)
    g.serialize(destination=out, format="jelly", stream=stream, options=opts)
    return out.getvalue(), dl, stream


def run_case(case: dict):
    """-> ('raised', None) | ('ok', None) | ('violation', (kind, msg))."""
    if case.get("sink_reuse"):
        return run_sink_reuse(case)
    if case.get("device"):
        return run_device(case)
    if case.get("plugin_twice"):
        return run_plugin_twice(case)
    if case.get("prefix_leading"):
        return run_prefix_leading(case)
    arity = 3 if case["cls"] == "triple" else 4
    flat = [s for g in input_for(case["input"], arity) for s in g]
    expect = T.norm_seq(flat)
    if case["input"] == "wrong_arity":
        arity = len(flat[0])
    try:
        if case.get("reuse"):
            # the same options object was used before by a call that failed half-way
            lt, fs = case["logical"], case["frame_size"]
            opts = DR.make_options(case["cls"], (8, 4, 2), fs, case["delimited"], lt,
                                   generalized=(case["api"] == "generic"),
                                   rdf_star=(case["api"] == "generic"), flow=None)
            try:
                build(case, opts, poison=True)
            except Exception:  # noqa: BLE001
                pass
            data, delimited, stream = build(case, opts)
        elif case.get("reuse_flow"):
            # the caller's options object (with its explicit flow object) serves two complete
            # serialisations one after the other; the second one is judged
            lt, fs = case["logical"], case["frame_size"]
            opts = DR.make_options(case["cls"], (8, 4, 2), fs, case["delimited"], lt,
                                   generalized=(case["api"] == "generic"),
                                   rdf_star=(case["api"] == "generic"),
                                   flow=make_flow(case["flow"], lt, fs))
            build(case, opts)
            data, delimited, stream = build(case, opts)
        else:
            data, delimited, stream = build(case)
    except (NameError, UnboundLocalError) as e:
        from mc.env import HarnessError  # noqa: PLC0415

        raise HarnessError(f"harness bug, not a refusal: {e!r}") from e
    except Exception as e:  # noqa: BLE001
        return "raised", type(e).__name__
    if not data:
        return "violation", ("wrote-nothing", f"accepted, returned normally, wrote 0 bytes for "
                                              f"{len(flat)} statement(s)")
    try:
        frames = jwire.read_delimited(data) if delimited else jwire.read_single(data)
        dec, per = jspec.decode_frames(frames)
        got = [T.norm_st(s) for s in jspec.statements(per)]
        if dec.options["physical_type"] == 1 and arity == 4:
            # an entry point that picked a TRIPLES stream for quad input (logical type GRAPHS =
            # stream of unnamed graphs) drops graph names by design: judge the triples only
            expect = [s[:3] for s in expect]
    except (jwire.WireError, jspec.SpecViolation) as e:
        return "violation", ("invalid-output", f"accepted but output is not a valid stream: {e}")
    as_set = case["api"] == "rdflib" and case["entry"] not in ("stream_frames_gen", "flat_to_file") \
        or (case["api"] == "rdflib" and case["cls"] == "graph")
    if as_set and case["entry"] == "grouped_to_file":
        # one container per group: duplicates across groups are separate statements
        import collections  # noqa: PLC0415

        same = collections.Counter(got) == collections.Counter(expect)
    else:
        same = (set(got) == set(expect)) if as_set else (got == expect)
    if not same:
        missing = [s for s in expect if s not in got]
        return "violation", ("statements-missing", f"accepted and returned, but {len(missing)} of "
                                                   f"{len(expect)} statements are not in the output")
    if stream is not None and len(stream.flow):
        return "violation", ("rows-left-behind", f"{len(stream.flow)} rows left in the flow")
    try:
        read = DR.g_read if case["api"] == "generic" else DR.r_read
        back = DR.stmts_of(read(data, "flat"))
        if {b[: len(expect[0])] for b in back} != set(expect):
            return "violation", ("not-readable-back", "pyjelly reads back different statements")
    except Exception as e:  # noqa: BLE001
        return "violation", ("not-readable-back", f"pyjelly cannot read its output: "
                                                  f"{type(e).__name__}: {e}")
    return "ok", None


def run_plugin_twice(case: dict):
    """The rdflib serializer plugin object of one store writes that store to two outputs: each
    output holds everything (or the second call is refused)."""
    from pyjelly.integrations.rdflib.serialize import RDFLibJellySerializer  # noqa: PLC0415

    seq = list(T3 if case["cls"] == "triple" else T4)
    ser = RDFLibJellySerializer(DR.r_graph(seq))
    outs = []
    try:
        for _ in range(2):
            out = io.BytesIO()
            ser.serialize(out)
            outs.append(out.getvalue())
    except Exception as e:  # noqa: BLE001
        return "raised", type(e).__name__
    for n, data in enumerate(outs):
        try:
            _, per = jspec.decode_frames(jwire.read_delimited(data))
            got = {T.norm_st(s) for s in jspec.statements(per)}
        except (jwire.WireError, jspec.SpecViolation) as e:
            return "violation", ("invalid-output", f"output {n + 1} of the same serializer "
                                                   f"object is not a valid stream: {e}")
        if got != set(T.norm_seq(seq)):
            return "violation", ("statements-missing", f"output {n + 1} of the same serializer "
                                                       f"object lacks statements")
    return "ok", None


def run_sink_reuse(case: dict):
    """One GenericStatementSink object through its own serialize()/parse() methods several
    times, with other content each time: what is written last must be what it holds last."""
    from pyjelly.integrations.generic import generic_sink as gs  # noqa: PLC0415

    first = T3 if case["first"] == "triples" else T4
    second = T4 if case["second"] == "quads" else T3
    sink = gs.GenericStatementSink()
    for st in first:
        sink.add(T.st_to_generic(st))
    sink.serialize(io.BytesIO())
    src = io.BytesIO()
    DR.g_sink(second).serialize(src)
    src.seek(0)
    try:
        sink.parse(src)
        out = io.BytesIO()
        sink.serialize(out)
    except Exception as e:  # noqa: BLE001
        return "raised", type(e).__name__
    try:
        _, per = jspec.decode_frames(jwire.read_delimited(out.getvalue()))
    except (jwire.WireError, jspec.SpecViolation) as e:
        return "violation", ("invalid-output", f"sink re-used: output is not a valid stream: {e}")
    got = [T.norm_st(s) for s in jspec.statements(per)]
    if got != T.norm_seq(second):
        return "violation", ("statements-missing",
                             f"a sink that held {case['first']} was re-loaded with "
                             f"{len(second)} {case['second']} through parse() and serialised "
                             f"again: the output holds {got[:3]}…")
    return "ok", None


def run_prefix_leading(case: dict):
    """What the flat parsers yield for a stream with namespace declarations (Prefix items among
    the statements) handed straight to the flat serializers: refused, or nothing is lost."""
    api, arity, where = case["api"], case["arity"], case["where"]
    seq = list(T3 if arity == 3 else T4)
    if api == "generic":
        from pyjelly.integrations.generic import generic_sink as gs  # noqa: PLC0415
        from pyjelly.integrations.generic import serialize as ser  # noqa: PLC0415

        pfx = gs.Prefix("ex", gs.IRI("http://a/"))
        items = [T.st_to_generic(s) for s in seq]
    else:
        import rdflib  # noqa: PLC0415

        from pyjelly.integrations.rdflib import serialize as ser  # noqa: PLC0415
        from pyjelly.integrations.rdflib.parse import Prefix  # noqa: PLC0415

        pfx = Prefix("ex", rdflib.URIRef("http://a/"))
        items = [T.st_to_rdflib(s) for s in seq]
    items.insert({"first": 0, "second": 1, "last": len(items)}[where], pfx)
    opts = None
    if case["options"]:
        opts = DR.make_options("triple" if arity == 3 else "quad", (8, 4, 2), 2, True,
                               1 if arity == 3 else 2, generalized=(api == "generic"),
                               rdf_star=(api == "generic"), ns=case["options"] == "ns")
    out = io.BytesIO()
    try:
        if case["entry"] == "flat_to_file":
            ser.flat_stream_to_file((i for i in items), out, opts)
        else:
            for f in ser.flat_stream_to_frames((i for i in items), opts):
                out.write(jwire.write_delimited([f.SerializeToString()]))
    except (NameError, UnboundLocalError) as e:
        from mc.env import HarnessError  # noqa: PLC0415

        raise HarnessError(f"harness bug, not a refusal: {e!r}") from e
    except Exception as e:  # noqa: BLE001
        return "raised", type(e).__name__
    try:
        _, per = jspec.decode_frames(jwire.read_delimited(out.getvalue()))
        got = [T.norm_st(s) for s in jspec.statements(per)]
    except (jwire.WireError, jspec.SpecViolation) as e:
        return "violation", ("invalid-output", f"accepted but output is not a valid stream: {e}")
    if got != T.norm_seq(seq):
        return "violation", ("statements-missing",
                             f"a flat input with a Prefix item ({where}) was accepted, but the "
                             f"output holds {got[:2]}… where {T.norm_seq(seq)[:2]}… went in")
    return "ok", None


class ShortRaw(io.RawIOBase):
    """A raw output (pipe, socket, unbuffered file) that takes at most k bytes per call and says
    how many it took."""

    def __init__(self, k: int) -> None:
        super().__init__()
        self.buf = bytearray()
        self.k = k

    def writable(self) -> bool:
        return True

    def write(self, b) -> int:
        n = min(len(b), self.k)
        self.buf += bytes(b[:n])
        return n


class FillingRaw(ShortRaw):
    """A non-blocking raw output whose buffer fills up: counts while there is room, then None
    (nothing taken)."""

    def write(self, b):
        room = self.k - len(self.buf)
        if room <= 0:
            return None
        n = min(len(b), room)
        self.buf += bytes(b[:n])
        return n


DEVICES = {"short-7": lambda: ShortRaw(7), "short-1000": lambda: ShortRaw(1000),
           "filling-0": lambda: FillingRaw(0), "filling-5": lambda: FillingRaw(5),
           "filling-4096": lambda: FillingRaw(4096)}
DEVICE_ENTRIES = (("generic", "flat_to_file"), ("generic", "grouped_to_file"),
                  ("generic", "sink_serialize"), ("rdflib", "flat_to_file"),
                  ("rdflib", "grouped_to_file"), ("rdflib", "graph_serialize_options"))


def run_device(case: dict):
    """The output is a raw device that does not take everything it is offered. Returning
    normally means everything is on the device; otherwise the call must raise."""
    api, entry, dl, cls = case["api"], case["entry"], case["delimited"], case["cls"]
    seq = [(I(f"http://a/s{i % 7}"), I("http://a/p"), L("v" * 40 + str(i))) for i in range(300)]
    if cls == "quad":
        seq = [(*st, I(f"http://a/g{i % 3}")) for i, st in enumerate(seq)]
    dev = DEVICES[case["device"]]()
    if case["device"] == "filling-0" and not dl and entry == "graph_serialize_options":
        return "raised", "skipped"  # a writer that never reports a count cannot be told apart
    opts = DR.make_options(cls, (128, 32, 32), case["frame_size"], dl, 0)
    try:
        if api == "generic":
            from pyjelly.integrations.generic import serialize as ser  # noqa: PLC0415

            if entry == "flat_to_file":
                ser.flat_stream_to_file((T.st_to_generic(s) for s in seq), dev, opts)
            elif entry == "grouped_to_file":
                ser.grouped_stream_to_file((DR.g_sink(g) for g in (seq[:150], seq[150:])), dev,
                                           options=opts)
            else:
                DR.g_sink(seq).serialize(dev)
            written_delimited = True
        else:
            from pyjelly.integrations.rdflib import serialize as ser  # noqa: PLC0415

            written_delimited = True
            if entry == "flat_to_file":
                ser.flat_stream_to_file((T.st_to_rdflib(s) for s in seq), dev, opts)
            elif entry == "grouped_to_file":
                ser.grouped_stream_to_file((DR.r_graph(g) for g in (seq[:150], seq[150:])), dev,
                                           options=opts)
            else:
                DR.r_graph(seq).serialize(destination=dev, format="jelly", options=opts)
                written_delimited = dl
    except (NameError, UnboundLocalError, AttributeError) as e:
        from mc.env import HarnessError  # noqa: PLC0415

        raise HarnessError(f"harness bug, not a refusal: {e!r}") from e
    except Exception as e:  # noqa: BLE001
        return "raised", type(e).__name__
    data = bytes(dev.buf)
    try:
        frames = jwire.read_delimited(data) if written_delimited else jwire.read_single(data)
        _, per = jspec.decode_frames(frames)
        got = {T.norm_st(s) for s in jspec.statements(per)}
    except (jwire.WireError, jspec.SpecViolation) as e:
        return "violation", ("partial-output", f"the call returned normally but the {len(data)} "
                                               f"bytes the device took are not a complete stream "
                                               f"({e})")
    missing = set(T.norm_seq(seq)) - got
    if missing:
        return "violation", ("statements-missing", f"the call returned normally, the device took "
                                                   f"{len(data)} bytes, {len(missing)} of "
                                                   f"{len(seq)} statements are not in them")
    return "ok", None


def all_points(frame_sizes) -> list:
    pts = []
    for api, entries in (("generic", G_ENTRIES), ("rdflib", R_ENTRIES)):
        for entry in entries:
            for cls in DR.CLASSES:
                if entry in SELF_CHOOSING and cls == "graph":
                    continue  # the entry point chooses the class from the input kind
                for lt in LOGICAL:
                    for dl in (True, False):
                        for fs in frame_sizes:
                            for flow in FLOWS:
                                for inp in INPUTS:
                                    if inp == "three_groups" and entry != "grouped_to_file":
                                        continue
                                    pts.append((api, entry, cls, lt, dl, fs, flow, inp, False))
                                if flow in ("inferred", "GraphsFrameFlow", "DatasetsFrameFlow",
                                            "ManualFrameFlow"):
                                    pts.append((api, entry, cls, lt, dl, fs, flow,
                                                "same_in_groups", False))
                                    if cls != "triple":
                                        pts.append((api, entry, cls, lt, dl, fs, flow,
                                                    "recurring_graph", False))
                                        if api == "rdflib" and entry not in ("stream_frames_gen",
                                                                             "flat_to_file"):
                                            for order in ("empty-first", "empty-last",
                                                          "empty-default-union"):
                                                pts.append((api, entry, cls, lt, dl, fs, flow,
                                                            "five", order))
                                if flow != "inferred" and fs == 2:
                                    pts.append((api, entry, cls, lt, dl, fs, flow, "five",
                                                "flow"))
                                if entry == "grouped_to_file" and flow in (
                                        "inferred", "GraphsFrameFlow", "DatasetsFrameFlow"):
                                    pts.append((api, entry, cls, lt, dl, fs, flow,
                                                "three_groups", "window"))
                                if flow in ("inferred", "BoundedFrameFlow") and entry not in (
                                        "stream_frames_gen", "flat_to_file"):
                                    # containers with 12 namespace bindings, declarations on
                                    pts.append((api, entry, cls, lt, dl, fs, flow, "five",
                                                "bindings"))
                                if flow == "inferred" and fs != 1:
                                    # options object reused after a failed call
                                    pts.append((api, entry, cls, lt, dl, fs, flow, "five", True))
                                if flow == "inferred" and fs == 250 and lt in (0, 1, 2, 3, 4):
                                    pts.append((api, entry, cls, lt, dl, fs, flow, "huge", False))
                                if flow == "inferred" and fs in (2, 250) and lt in (0, 1, 2):
                                    pts.append((api, entry, cls, lt, dl, fs, flow, "wrong_arity",
                                                False))
                                if (fs == 250 and lt in (0, 2) and cls == "graph" and dl
                                        and flow == "inferred"
                                        and entry in ("stream_frames_gen",)):
                                    pts.append((api, entry, cls, lt, dl, fs, flow, "many_graphs",
                                                False))
                                if (fs == 250 and lt == 1 and api == "generic" and cls == "triple"
                                        and flow in ("inferred", "BoundedFrameFlow")
                                        and entry in ("stream_frames_gen", "flat_to_file")):
                                    pts.append((api, entry, cls, lt, dl, fs, flow, "many", False))
    return pts


def shard(job) -> dict:
    frame_sizes, lo, hi = job
    DR.ensure_rdflib_plugin()
    acc = pool.Acc()
    if lo == 0:
        for first, second in (("triples", "quads"), ("quads", "triples"), ("triples", "triples"),
                              ("quads", "quads")):
            case = {"sink_reuse": True, "first": first, "second": second}
            acc.counters["sink_reuse_cases"] += 1
            outcome, info = run_case(case)
            if outcome == "violation":
                acc.violation({"fail": info[0], "sink_reuse": True}, f"{info[1]}: {case}", case)
        for cls in ("triple", "quad"):
            case = {"plugin_twice": True, "cls": cls}
            outcome, info = run_case(case)
            acc.counters[f"plugin_twice:{outcome}"] += 1
            if outcome == "violation":
                acc.violation({"fail": info[0], "plugin_twice": True}, f"{info[1]}: {case}", case)
        for api in ("generic", "rdflib"):
            for entry in ("flat_to_file", "flat_to_frames"):
                for arity in (3, 4):
                    for where in ("first", "second", "last"):
                        for o in (None, "plain", "ns"):
                            case = {"prefix_leading": True, "api": api, "entry": entry,
                                    "arity": arity, "where": where, "options": o}
                            outcome, info = run_case(case)
                            acc.counters[f"prefix_item:{outcome}"] += 1
                            if outcome == "violation":
                                acc.violation({"fail": info[0], "prefix_item": where},
                                              f"{info[1]}: {case}", case)
        for api, entry in DEVICE_ENTRIES:
            for device in DEVICES:
                for cls in ("triple", "quad"):
                    for dl in (True, False):
                        for fs in (50, 100_000):
                            case = {"device": device, "api": api, "entry": entry, "cls": cls,
                                    "delimited": dl, "frame_size": fs}
                            acc.evals += 1
                            outcome, info = run_case(case)
                            acc.counters[f"device:{outcome}"] += 1
                            if outcome == "violation":
                                acc.violation({"fail": info[0], "device": device.split("-")[0],
                                               "delimited": dl},
                                              f"{info[1]}: {case}", case)
    for api, entry, cls, lt, dl, fs, flow, inp, reuse in all_points(frame_sizes)[lo::hi]:
        case = {"api": api, "entry": entry, "cls": cls, "logical": lt, "delimited": dl,
                "frame_size": fs, "flow": flow, "input": inp, "reuse": reuse is True,
                "reuse_flow": reuse == "flow", "bindings": reuse == "bindings",
                "window": reuse == "window",
                "empty_graphs": reuse if str(reuse).startswith("empty-") else False}
        acc.evals += 1
        outcome, info = run_case(case)
        acc.counters[f"outcome:{outcome}"] += 1
        acc.counters[f"{outcome}|entry={api}.{entry}"] += 1
        acc.counters[f"{outcome}|delimited={dl}"] += 1
        acc.counters[f"{outcome}|flow={flow}"] += 1
        if outcome != "raised":
            acc.nontrivial += 1
        if outcome == "violation":
            kind, msg = info
            flat_lt = lt in (1, 2)
            acc.violation({"fail": kind, "delimited": dl, "flat_logical": flat_lt,
                           "flow": flow if flow != "inferred" else "inferred", "input": inp,
                           "reuse": reuse},
                          f"{msg}: {case}", case)
        elif acc.evals % 211 == 0:
            acc.sample({**case, "outcome": outcome}, cap=3)
    return acc.out()


def run(ctx) -> None:
    frame_sizes = (1, 2, 250) if ctx.quick else (1, 2, 3, 250)
    n = len(all_points(frame_sizes)) + len(DEVICE_ENTRIES) * len(DEVICES) * 8
    merged = pool.merge(pool.pmap(shard, [(frame_sizes, i, 64) for i in range(64)]))  # strided
    ctx.add(merged)
    if merged["evals"] != n:
        from mc.env import HarnessError  # noqa: PLC0415

        raise HarnessError(f"enumerated {merged['evals']} of {n} lattice points")
    table = {k: v for k, v in sorted(merged["counters"].items())}
    ctx.coverage.update(
        evaluations=n,
        distinct_nontrivial=merged["nontrivial"],
        exhaustive=True,
        outcome_table=table,
        samples=merged["samples"],
        rule=(
            "full lattice: {generic, rdflib} entry points x {Triple,Quad,Graph}Stream x 8 logical "
            f"types x delimited{{T,F}} x frame_size{list(frame_sizes)} x flow{{inferred + 6 "
            "FrameFlow classes}} x non-empty inputs (1 statement, 5 statements, 3 graphs/datasets "
            "for the grouped entry point; with the inferred flow also one statement carrying a 3 MB "
            "literal, and the same options object reused after a call that failed half-way); non-trivial = configuration accepted (did not raise); "
            "accepted points must have written everything (reference decoder + pyjelly read-back)"
        ),
    )


def replay(case: dict) -> list:
    DR.ensure_rdflib_plugin()
    outcome, info = run_case(case)
    return [info[1]] if outcome == "violation" else []
