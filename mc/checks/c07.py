"""C07 - frame boundaries never change content; grouped I/O is one sink per frame.

Read side: every partition of the row sequence of each base stream into
consecutive frames (2^(n-1)), plain / with empty frames at every boundary /
with metadata on every frame.  Write side: every sequence of <= 3
graphs/datasets of 0-2 statements through the grouped entry point.
"""
from __future__ import annotations

import contextvars
import io
import itertools

from mc import alphabets as AL
from mc import drivers as DR
from mc import jrefenc, jspec, jwire, pool
from mc import terms as T
from mc.env import HarnessError
from mc.explore import choice
from mc.terms import B, DEFAULT, I, L

LEVEL = "exploration"
PT = {"triple": 1, "quad": 2, "graph": 3}


# ------------------------------------------------------------------- bases
def base_streams(max_rows: int) -> list[dict]:
    out = []
    for scope in AL.SCOPES:
        preset = AL.SCOPES[scope]["presets"][1]
        for cls in DR.CLASSES:
            alpha = [s for s in AL.alphabet(scope, 3 if cls == "triple" else 4)
                     if AL.fits(s, preset)]
            # pyjelly-written, as many statements as keep the stream within max_rows rows
            best = None
            for k in range(1, 5):
                seq = (alpha + alpha)[:k]
                data = DR.g_write(seq, cls, DR.make_options(cls, preset, 250, True))
                rows = [r for f in jwire.read_delimited(data) for r in f["rows"]]
                if len(rows) <= max_rows:
                    best = (seq, rows)
            if best:
                out.append(_base(f"pyjelly/{scope}/{cls}", cls, best[0], best[1]))
                if scope in ("prefix", "repeat") and len(best[1]) + 1 <= max_rows:
                    # the same rows with the (identical) options row stated again in the middle:
                    # some partitions put it at the start of a frame, others inside one
                    rows = list(best[1])
                    mid = len(rows) // 2
                    if cls == "graph":  # (not between a graph start and its end: keep it simple)
                        mid = next((i + 1 for i in range(mid, len(rows))
                                    if rows[i]["kind"] == "graph_end"), len(rows))
                    rows.insert(mid, rows[0])
                    out.append(_base(f"pyjelly+options-again/{scope}/{cls}", cls, best[0], rows))
            # reference-encoder-written, with explicit ids and redundant entries
            for tag, feats in (("explicit", {"explicit-entry-id", "explicit-ref"}),
                               ("resend", {"resend", "no-elide"})):
                best = None
                for k in range(1, 4):
                    seq = (alpha + alpha)[:k]

                    class Always1(choice.Chooser):
                        def choose(self, n, label=""):
                            self.trace.append((n, label, 1 if n > 1 else 0))
                            return 1 if n > 1 else 0

                    try:
                        enc = jrefenc.RefEncoder(Always1(), PT[cls], preset,
                                                 features=frozenset(feats))
                        enc.start()
                        for st in seq:
                            enc.statement(st)
                        enc.finish()
                    except ValueError:
                        continue
                    rows = [r for rs, _ in enc.frames for r in rs]
                    if len(rows) <= max_rows:
                        best = (seq, rows)
                if best:
                    out.append(_base(f"refenc-{tag}/{scope}/{cls}", cls, best[0], best[1]))
    return out


def _base(name, cls, seq, rows) -> dict:
    data = jwire.write_delimited([jwire.enc_frame(rows)])
    dec, per = jspec.decode_frames(jwire.read_delimited(data))
    if [T.norm_st(s) for s in jspec.statements(per)] != T.norm_seq(seq):
        raise HarnessError(f"base stream {name} does not denote its input")
    # events contributed by each row (for per-frame expectations)
    d2 = jspec.Decoder()
    per_row = []
    for r in rows:
        evs = d2.row(r)
        per_row.append([("st", T.norm_st(e[1])) for e in evs if e[0] == "st"])
    return {"name": name, "cls": cls, "rows": rows, "per_row": per_row,
            "rdf11": all(T.is_rdf11(s) for s in seq), "seq": seq}


def partition(rows, mask: int) -> list[list]:
    """mask bit i set = cut after row i (0-based, i < n-1)."""
    frames, cur = [], []
    for i, r in enumerate(rows):
        cur.append(i)
        if mask >> i & 1:
            frames.append(cur)
            cur = []
    if cur:
        frames.append(cur)
    return frames


def materialise(base, mask: int, variant: str):
    """-> (bytes, [per-frame expected statement events], [per-frame metadata])."""
    rows = base["rows"]
    parts = partition(rows, mask)
    frames: list[tuple[list[int], dict]] = []
    if variant == "empty":
        frames.append(([], {}))
    if variant.startswith("hb"):
        # "heartbeat" frames: no rows, only metadata; the leading one is 7+n bytes long
        frames.append(([], {"k": b"x" * int(variant[2:])}))
    for k, idxs in enumerate(parts):
        meta = {"frame": bytes([k + 1]), "é": b""} if variant == "meta" else {}
        frames.append((idxs, meta))
        if variant == "empty":
            frames.append(([], {}))
        if variant.startswith("hb"):
            frames.append(([], {"k": b"y" * (k + int(variant[2:]))}))
    raw = [jwire.enc_frame([rows[i] for i in idxs], meta) for idxs, meta in frames]
    expect = [[e for i in idxs for e in base["per_row"][i]] for idxs, _ in frames]
    return jwire.write_delimited(raw), expect, [m for _, m in frames]


def _annotate(var) -> None:
    """A consumer that keeps notes in the mapping it was handed for this frame."""
    try:
        var.get()["consumer-note"] = b"seen"
    except Exception:  # noqa: BLE001  (a read-only mapping is fine)
        pass


def grouped(api: str, data: bytes):
    """-> list of (statements of the sink, metadata visible after the sink was yielded)."""
    var: contextvars.ContextVar = contextvars.ContextVar("frame_metadata")
    out = []
    made: list = []  # sinks handed out by the caller-supplied factory
    at_creation: list = []  # frame metadata visible when the factory is called for a frame

    def body():
        # (the caller's variable still holds what an earlier stream left in it)
        var.set({"stale": b"metadata of the last frame of an earlier stream"})
        if api == "generic":
            from pyjelly.integrations.generic import parse as gp  # noqa: PLC0415
            from pyjelly.integrations.generic.generic_sink import GenericStatementSink  # noqa: PLC0415

            class MySink(GenericStatementSink):
                pass

            def factory():
                at_creation.append(dict(var.get({})))
                made.append(MySink())
                return made[-1]

            for sink in gp.parse_jelly_grouped(io.BytesIO(data), sink_factory=factory,
                                               frame_metadata=var):
                meta = dict(var.get())
                _annotate(var)
                if not any(sink is m for m in made):
                    meta["!factory"] = b"sink not from the supplied factory"
                out.append(([("st", T.norm_st(T.st_from_generic(s))) for s in sink], meta))
        else:
            import rdflib  # noqa: PLC0415
            from pyjelly.integrations.rdflib import parse as rp  # noqa: PLC0415

            class MyGraph(rdflib.Graph):
                pass

            class MyDataset(rdflib.Dataset):
                pass

            def gf():
                at_creation.append(dict(var.get({})))
                made.append(MyGraph())
                return made[-1]

            def df():
                at_creation.append(dict(var.get({})))
                made.append(MyDataset())
                return made[-1]

            for g in rp.parse_jelly_grouped(io.BytesIO(data), graph_factory=gf,
                                            dataset_factory=df, frame_metadata=var):
                meta = dict(var.get())
                _annotate(var)
                if not any(g is m for m in made):
                    meta["!factory"] = b"graph not from the supplied factory"
                out.append((DR._graph_events(g), meta))
        if len(made) != len(out):
            out.append(([], {"!factory": f"{len(made)} factory calls for {len(out)} sinks".encode()}))
        else:
            for k, (m0, (_, m1)) in enumerate(zip(at_creation, out)):
                if m0 != {kk: v for kk, v in m1.items() if kk != "!factory"}:
                    out[k] = (out[k][0], {**m1, "!early": repr(m0).encode()})

    contextvars.copy_context().run(body)
    return out


def check_partition(base, mask: int, variant: str) -> list[tuple[str, str]]:
    data, expect, metas = materialise(base, mask, variant)
    flat_expect = [e for fr in expect for e in fr]
    fails = []
    for api in ("generic", "rdflib"):
        if api == "rdflib" and not base["rdf11"]:
            continue
        read = DR.g_read if api == "generic" else DR.r_read
        try:
            got = [e for e in read(data, "flat") if e[0] == "st"]
            if got != flat_expect:
                fails.append((f"flat-{api}", f"flat parse ({api}) of partition {mask:b}/{variant} gives "
                                             f"{got}, original gives {flat_expect}"))
        except Exception as e:  # noqa: BLE001
            fails.append((f"flat-{api}", f"flat parse ({api}) of partition {mask:b}/{variant} "
                                         f"raised {type(e).__name__}: {e}"))
        try:
            sinks = grouped(api, data)
        except Exception as e:  # noqa: BLE001
            fails.append((f"grouped-{api}", f"grouped parse ({api}) of partition {mask:b}/{variant} "
                                            f"raised {type(e).__name__}: {e}"))
            continue
        if len(sinks) != len(expect):
            fails.append((f"grouped-{api}", f"{len(sinks)} sinks for {len(expect)} frames "
                                            f"(partition {mask:b}/{variant})"))
            continue
        for k, ((evs, meta), want, wmeta) in enumerate(zip(sinks, expect, metas)):
            same = (set(evs) == set(want)) if api == "rdflib" else (evs == want)
            if not same:
                fails.append((f"grouped-{api}", f"sink {k} holds {evs}, frame {k} carries {want} "
                                                f"(partition {mask:b}/{variant})"))
                break
            if "!early" in meta:
                fails.append((f"metadata-{api}", f"when the sink for frame {k} is created (start of "
                                                 f"its consumption) the visible frame metadata is "
                                                 f"{meta['!early']!r}, the frame has {wmeta}"))
                break
            if meta != wmeta:
                fails.append((f"metadata-{api}", f"while sink {k} is current the visible frame "
                                                 f"metadata is {meta}, the frame has {wmeta}"))
                break
    return fails


def read_shard(job) -> dict:
    max_rows, idx = job
    base = base_streams(max_rows)[idx]
    acc = pool.Acc()
    n = len(base["rows"])
    for mask in range(1 << (n - 1)):
        # (heartbeat variants on the coarse partitions only: what they vary is the frame length)
        hb = tuple(f"hb{n}" for n in range(7)) if mask in (0, 1, (1 << (n - 1)) - 1) else ()
        for variant in ("plain", "empty", "meta") + hb:
            acc.evals += 1
            if mask:
                acc.nontrivial += 1
            for kind, msg in check_partition(base, mask, variant):
                acc.violation({"side": "read", "fail": kind, "variant": variant},
                              f"{base['name']}: {msg}",
                              {"side": "read", "max_rows": max_rows, "base": base["name"],
                               "mask": mask, "variant": variant})
    acc.sample({"side": "read", "base": base["name"], "rows": n, "partitions": 1 << (n - 1)},
               cap=1)
    return acc.out()


# --------------------------------------------------------------- write side
W3 = [(I("http://a/x"), I("http://a/p"), L("1")), (I("http://a/x"), I("http://a/p"), I("http://b#y")),
      (B("b"), I("http://a/q"), L("1")), (I("urn:x"), I("http://a/p"), I("x"))]
WG = [DEFAULT, I("http://a/g"), I("http://a/g"), I("g")]
W4 = [(*t, g) for t, g in zip(W3, WG)]
# every container repeats these bindings (the last one is the namespace of W3's subjects)
W_BINDINGS = (("b", "http://b#"), ("ex", "http://a/"))


def groups(arity: int) -> list[list]:
    alpha = W3 if arity == 3 else W4
    out: list[list] = [[]]
    for k in (1, 2):
        out += [list(p) for p in itertools.product(alpha, repeat=k)]
    return out


def big_group(n: int, arity: int, tag: str) -> list:
    out = []
    for i in range(n):
        st = (I(f"http://a/{tag}{i}"), I("http://a/p"), L(str(i)))
        out.append(st if arity == 3 else (*st, I(f"http://a/g{tag}")))
    return out


def check_write(case: dict) -> list[tuple[str, str]]:
    api, arity = case["api"], case["arity"]
    lt = 3 if arity == 3 else 4
    cls = "triple" if arity == 3 else "quad"
    if case.get("big"):
        # graphs larger than the default frame size, grouped flow given as an explicit object
        inputs = [big_group(n, arity, f"b{k}") for k, n in enumerate((300, 5, 260, 1))]
        from pyjelly.serialize import flows  # noqa: PLC0415

        how = case["big"]
        if how == "frame-2m":
            # the middle graph makes one frame of 2.4 MB (its length prefix has four bytes)
            mid = [(I(f"http://a/m{i}"), I("http://a/p"), L("w" * 1000 + str(i)))
                   for i in range(2400)]
            inputs = [big_group(3, arity, "f"),
                      mid if arity == 3 else [(*st, I("http://a/gm")) for st in mid],
                      big_group(2, arity, "l")]
        if how == "explicit-flow":
            flow = flows.GraphsFrameFlow() if arity == 3 else flows.DatasetsFrameFlow()
            opts = DR.make_options(cls, (4000, 150, 32), 250, True, 0, generalized=False,
                                   rdf_star=False, flow=flow)
        elif how.startswith("subtype"):
            sub = int(how.split("-")[1])
            opts = DR.make_options(cls, (4000, 150, 32), 250, True, sub, generalized=False,
                                   rdf_star=False)
        else:
            opts = DR.make_options(cls, (4000, 150, 32), 250, True, lt, generalized=False,
                                   rdf_star=False)
    else:
        gl = groups(arity)
        inputs = [gl[i] for i in case["groups"]]
        opts = DR.make_options(cls, (8, 2, 0), 250, True, lt, generalized=False, rdf_star=False,
                               ns=bool(case.get("ns")))
    out = io.BytesIO()
    via = case.get("via")
    binds = W_BINDINGS if case.get("ns") else ()

    def kept(ser, containers):
        # the caller collects the frames of the whole grouped stream first, writes them later
        frames = list(ser.grouped_stream_to_frames((c for c in containers), opts))
        for f in frames:
            out.write(jwire.write_delimited([f.SerializeToString()]))

    def shared(ser, containers):
        # one explicit stream object of the given class serves every container in turn
        scls = via.split("-")[1].split("+")[0]
        o2 = DR.make_options(scls, (8, 2, 0), 250, True, lt, generalized=False, rdf_star=False)
        stream = DR.g_stream(scls, o2) if api == "generic" else DR.r_stream(scls, o2)
        for c in containers:
            out.write(DR.frames_to_bytes(ser.stream_frames(stream, c), True))

    if api == "generic":
        from pyjelly.integrations.generic import serialize as ser  # noqa: PLC0415

        if via == "frames-kept":
            kept(ser, [DR.g_sink(g, binds) for g in inputs])
        elif via == "list-input":  # the containers in a list / tuple, not a generator
            ser.grouped_stream_to_file([DR.g_sink(g, binds) for g in inputs], out, options=opts)
        elif via:
            shared(ser, [DR.g_sink(g) for g in inputs if g])
        else:
            ser.grouped_stream_to_file((DR.g_sink(g, binds) for g in inputs), out, options=opts)
    else:
        from pyjelly.integrations.rdflib import serialize as ser  # noqa: PLC0415

        def mk(g):
            if arity == 3:
                return DR.r_graph(g, binds)
            import rdflib  # noqa: PLC0415

            ds = rdflib.Dataset()
            if via == "shared-graph+empty":
                # a registered but empty named graph whose name brings a namespace of its own
                ds.graph(rdflib.URIRef(f"http://empty{len(g)}.example/ns#g"))
            for pfx, iri in binds:
                ds.bind(pfx, rdflib.URIRef(iri), override=True, replace=True)
            for st in g:
                s, p, o, gn = (T.to_rdflib(t) for t in st)
                ds.add((s, p, o, ds.get_context(gn)))
            return ds

        if via == "frames-kept":
            kept(ser, [mk(g) for g in inputs])
        elif via == "list-input":
            ser.grouped_stream_to_file(tuple(mk(g) for g in inputs), out, options=opts)
        elif via:
            shared(ser, [mk(g) for g in inputs if g])
        else:
            ser.grouped_stream_to_file((mk(g) for g in inputs), out, options=opts)
    data = out.getvalue()
    nonempty = [T.norm_seq(g) for g in inputs if g]
    if not data:
        return [("nothing", "nothing written")] if nonempty else []
    try:
        dec, per = jspec.decode_frames(jwire.read_delimited(data))
    except (jspec.SpecViolation, jwire.WireError) as e:
        return [("invalid", f"grouped output invalid: {e}")]
    frames = [[e[1] for e in evs if e[0] == "st"] for evs in per]
    frames = [[T.norm_st(s) for s in f] for f in frames if f]
    if api == "rdflib":
        # rdflib containers are sets (dedup, own order)
        ok = len(frames) == len(nonempty) and all(set(f) == set(g) and len(f) == len(set(g))
                                                   for f, g in zip(frames, nonempty))
    else:
        ok = frames == nonempty
    if not ok:
        return [("frames", f"{len(nonempty)} non-empty inputs of sizes {[len(g) for g in nonempty]} "
                           f"were written as {len(frames)} statement-carrying frames of sizes "
                           f"{[len(f) for f in frames]}: inputs {str(nonempty)[:300]} frames "
                           f"{str(frames)[:300]}")]
    return []


def write_shard(job) -> dict:
    api, arity, maxlen, lo, hi = job
    acc = pool.Acc()
    ng = len(groups(arity))
    for idx in range(lo, hi):
        sym = AL.seq_at(idx, ng, maxlen)
        case = {"side": "write", "api": api, "arity": arity, "groups": list(sym)}
        acc.evals += 1
        if sum(1 for i in sym if i) >= 2:
            acc.nontrivial += 1
        try:
            fails = check_write(case)
        except Exception as e:  # noqa: BLE001
            fails = [("raised", f"grouped serialisation raised {type(e).__name__}: {e}")]
        for kind, msg in fails:
            acc.violation({"side": "write", "fail": kind, "api": api}, f"{msg} case={case}", case)
        if len(sym) <= 2 and sum(1 for i in sym if i) >= 2:
            c2 = {**case, "ns": True}
            acc.evals += 1
            try:
                fails = check_write(c2)
            except Exception as e:  # noqa: BLE001
                fails = [("raised", f"with declarations: raised {type(e).__name__}: {e}")]
            for kind, msg in fails:
                acc.violation({"side": "write", "fail": kind, "api": api, "ns": True},
                              f"{msg} case={c2}", c2)
        if len(sym) <= 2 and any(sym):
            for via in (("shared-triple",) if arity == 3 else (
                    "shared-quad", "shared-graph") + (("shared-graph+empty",) if api == "rdflib"
                                                      else ())) + (
                    "frames-kept", "list-input"):
                c2 = {**case, "via": via}
                acc.evals += 1
                try:
                    fails = check_write(c2)
                except Exception as e:  # noqa: BLE001
                    fails = [("raised", f"{via}: serialisation raised {type(e).__name__}: {e}")]
                for kind, msg in fails:
                    acc.violation({"side": "write", "fail": kind, "api": api, "via": via},
                                  f"{msg} case={c2}", c2)
    if lo == 0:
        subs = ("subtype-13",) if arity == 3 else ("subtype-14", "subtype-114")
        for how in ("explicit-flow", "logical-type", "frame-2m", *subs):
            case = {"side": "write", "api": api, "arity": arity, "groups": [], "big": how}
            acc.evals += 1
            acc.nontrivial += 1
            try:
                fails = check_write(case)
            except Exception as e:  # noqa: BLE001
                fails = [("raised", f"grouped serialisation raised {type(e).__name__}: {e}")]
            for kind, msg in fails:
                acc.violation({"side": "write", "fail": kind, "api": api, "big": how},
                              f"{msg[:400]} case={case}", case)
    acc.sample({"side": "write", "api": api, "arity": arity, "first": lo}, cap=1)
    return acc.out()


def _dispatch(job):
    return read_shard(job[1]) if job[0] == "r" else write_shard(job[1])


def run(ctx) -> None:
    DR.ensure_rdflib_plugin()
    max_rows = 10 if ctx.quick else 13
    bases = base_streams(max_rows)
    if len(bases) < 12:
        raise HarnessError(f"only {len(bases)} base streams within {max_rows} rows")
    jobs = [("r", (max_rows, i)) for i in range(len(bases))]
    maxlen = 3
    for api in ("generic", "rdflib"):
        for arity in (3, 4):
            n = AL.n_sequences(len(groups(arity)), maxlen)
            for lo, hi in pool.split_range(n, 4):
                jobs.append(("w", (api, arity, maxlen, lo, hi)))
    jobs.sort(key=lambda j: -len(bases[j[1][1]]["rows"]) if j[0] == "r" else 0)
    merged = pool.merge(pool.pmap(_dispatch, jobs))
    ctx.add(merged)
    ctx.coverage.update(
        evaluations=merged["evals"],
        distinct_nontrivial=merged["nontrivial"],
        base_streams=len(bases),
        rows_per_base=[len(b["rows"]) for b in bases],
        exhaustive=True,
        samples=merged["samples"],
        rule=(
            f"read: all 2^(n-1) partitions of every base stream (<= {max_rows} rows; written by "
            "pyjelly and by the reference encoder with explicit ids / redundant entries; 3 "
            "physical types) x {plain, empty frame at every boundary incl. leading/trailing, "
            "metadata on every frame} x {flat, grouped(+frame_metadata)} x {generic, rdflib}; "
            "write: every sequence of <= 3 graphs/datasets of 0-2 statements via "
            "grouped_stream_to_file with GRAPHS/DATASETS logical type; non-trivial = partition with "
            "at least one cut / at least two non-empty inputs"
        ),
    )


def replay(case: dict) -> list:
    DR.ensure_rdflib_plugin()
    if case["side"] == "write":
        return [m for _, m in check_write(case)]
    base = next(b for b in base_streams(case["max_rows"]) if b["name"] == case["base"])
    return [m for _, m in check_partition(base, case["mask"], case["variant"])]
