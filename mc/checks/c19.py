"""C19 - compression contract: each string once, repeats elided, deltas used.

Every emitted stream of the C01 space is audited row by row with the reference
decoder's trail.  Only the "=> compact" direction is demanded.
"""
from __future__ import annotations

from mc import alphabets as AL
from mc import jspec, jwire, pool, roundtrip as RT
from mc import terms as T
from mc.terms import XSD_STRING

LEVEL = "exploration"


def naive_rows_size(seq, cls: str, preset) -> int:
    """Row bytes of the naive encoding: one entry per use, explicit ids, no elision."""
    names, prefixes, datatypes = preset
    tot = 0
    ctr = {"n": 0, "p": 0, "d": 0}

    def slot(which: str, size: int) -> int:
        ctr[which] = ctr[which] % size + 1
        return ctr[which]

    def term(t):
        nonlocal tot
        k = t[0]
        if k == "I":
            if prefixes:
                p, n = AL.split_iri(t[1])
                ps = slot("p", prefixes)
                tot += len(jwire.enc_row("prefix", {"id": ps, "value": p}))
            else:
                n, ps = t[1], 0
            ns = slot("n", names)
            tot += len(jwire.enc_row("name", {"id": ns, "value": n}))
            return ("iri", ps, ns)
        if k == "B":
            return ("bnode", t[1])
        if k == "L":
            if t[2]:
                return ("literal", t[1], t[2], None)
            if t[3] and t[3] != XSD_STRING:
                ds = slot("d", datatypes)
                tot += len(jwire.enc_row("datatype", {"id": ds, "value": t[3]}))
                return ("literal", t[1], None, ds)
            return ("literal", t[1], None, None)
        if k == "T":
            return ("triple", {"s": term(t[1]), "p": term(t[2]), "o": term(t[3])})
        return ("default",)

    for st in seq:
        d = {"s": term(st[0]), "p": term(st[1]), "o": term(st[2])}
        if cls == "triple":
            tot += len(jwire.enc_row("triple", d))
        elif cls == "quad":
            d["g"] = term(st[3])  # (term() adds its entry rows to tot itself)
            tot += len(jwire.enc_row("quad", d))
        else:  # one graph per statement
            g = term(st[3])
            tot += len(jwire.enc_row("graph_start", {"g": g}))
            tot += len(jwire.enc_row("triple", d))
            tot += len(jwire.enc_row("graph_end", {}))
    return tot


def audit(case, seq, data: bytes) -> list[tuple[str, str]]:
    cls = case["cls"]
    rdflib_api = case.get("api") == "rdflib"
    frames = jwire.read_delimited(data) if case["delimited"] else jwire.read_single(data)
    # (bracketing of graphs is C03's business: audit compactness even if a graph is re-announced)
    dec, per = jspec.decode_frames(frames, strict_graphs=False)
    fails: list[tuple[str, str]] = []
    st_i = 0
    starts = 0
    rows_size = 0
    for fr in frames:
        for r in fr["rows"]:
            if r["kind"] != "options":
                rows_size += len(r["raw"])
    sent: dict = {"name": [], "prefix": [], "datatype": []}
    for a in dec.audit:
        k = a["kind"]
        if k in ("name", "prefix", "datatype"):
            sent[k].append(a.get("value"))
            if a.get("resident"):
                fails.append(("resident-entry-resent",
                              f"{k} entry {a['value']!r} sent while resident (row {a['frame']}/{a['row']})"))
            if a.get("zero_possible") and a["id_wire"] != 0:
                fails.append(("entry-id-not-zero",
                              f"{k} entry id {a['id_wire']} where 0 was equivalent"))
        if k == "graph_start":
            starts += 1
        for ref in a.get("refs", ()):
            if "name_slot" in ref:
                if ref["name_slot"] == ref["name_prev"] + 1 and ref["name_wire"] != 0:
                    fails.append(("name-id-not-zero",
                                  f"name_id {ref['name_wire']} where 0 was equivalent ({ref['iri']})"))
                if (ref["prefix_slot"] != 0 and ref["prefix_slot"] == ref["prefix_prev"]
                        and ref["prefix_wire"] != 0):
                    fails.append(("prefix-id-not-zero",
                                  f"prefix_id {ref['prefix_wire']} where 0 was equivalent ({ref['iri']})"))
        if k in ("triple", "quad") and not rdflib_api:
            # (rdflib containers iterate in their own order and rdflib's term equality is
            #  not the neutral one, so elision is audited through the generic API only)
            if st_i > 0:
                prev, cur = seq[st_i - 1], seq[st_i]
                slots = "spo" if k == "triple" else "spog"
                for j, slot in enumerate(slots):
                    if cur[j] == prev[j] and slot not in a["unset"]:
                        fails.append(("repeat-not-elided",
                                      f"statement {st_i} slot {slot} equals the previous one but is sent"))
            st_i += 1
    # a table declared large enough for every distinct string of the stream: each sent once
    declared = {"name": dec.options["max_name_table_size"],
                "prefix": dec.options["max_prefix_table_size"],
                "datatype": dec.options["max_datatype_table_size"]}
    for k, vals in sent.items():
        if len(set(vals)) <= declared[k] and len(vals) != len(set(vals)):
            dup = next(v for v in vals if vals.count(v) > 1)
            fails.append(("sent-more-than-once",
                          f"the {k} table is declared with {declared[k]} slots, the stream has "
                          f"{len(set(vals))} distinct {k} strings, yet {dup!r} is sent "
                          f"{vals.count(dup)} times ({len(vals)} entry rows in all)"))
    if rdflib_api:
        # rdflib hands its statements over in its own order; what was handed over is what the
        # stream decodes to, and terms that decode to the same strings are equal rdflib terms
        decoded = jspec.statements(per)
        rows = [a for a in dec.audit if a["kind"] in ("triple", "quad")]
        for i in range(1, min(len(rows), len(decoded))):
            slots = "spo" if rows[i]["kind"] == "triple" else "spog"
            for j, slot in enumerate(slots):
                t = decoded[i][j]
                if t[0] == "L" and t[2] is None and t[3] is None:
                    continue  # (plain on the wire: "x" and "x"^^xsd:string are two rdflib terms)
                if t == decoded[i - 1][j] and slot not in rows[i]["unset"]:
                    fails.append(("repeat-not-elided",
                                  f"statement {i} slot {slot} ({t}) equals the previous "
                                  "one but is sent"))
        seq = [T.norm_st(x) for x in decoded]
    if cls == "graph" and not rdflib_api:
        runs = sum(1 for i, st in enumerate(seq) if i == 0 or st[3] != seq[i - 1][3])
        if starts > runs:
            fails.append(("graph-restarted",
                          f"{starts} graph starts for {runs} runs of equal graph names"))
    if case.get("ns") or str(case.get("writer", "")).endswith("+ns"):
        return fails  # (the naive size of declaration rows is not defined by the property)
    naive = naive_rows_size(seq, cls, tuple(case["preset"]))
    if rdflib_api and cls == "graph":
        naive = rows_size  # a Dataset also hands over its (empty) default graph: not judged
    if rows_size > naive:
        fails.append(("larger-than-naive", f"{rows_size} row bytes > naive {naive}"))
    return fails


def judge(case, seq, data, exc, acc) -> None:
    if exc is not None:
        acc.counters["write_raised"] += 1
        return
    try:
        fails = audit(case, seq, data)
    except (jspec.SpecViolation, jwire.WireError) as e:
        acc.counters["invalid_stream"] += 1  # C03's business
        acc.extra["invalid_example"] = str(e)
        return
    acc.counters["audited"] += 1
    for rule, msg in fails:
        acc.violation({"rule": rule, "cls": case["cls"], "api": case.get("api", "generic")},
                      f"{msg} case={case}", case)


def longrun_shard(job) -> dict:
    """One graph name for thousands of consecutive quads (beyond any internal buffer size),
    between two short runs: still one graph start per run."""
    from mc import drivers as DR  # noqa: PLC0415
    from mc.terms import I, L  # noqa: PLC0415

    _, writer, n = job
    acc = pool.Acc()
    g1, g2 = I("http://g/1"), I("http://g/2")
    seq = [(I("http://a/s"), I("http://a/p"), L("first"), g1)]
    seq += [(I(f"http://a/s{i % 7}"), I("http://a/p"), L(str(i)), g2) for i in range(n)]
    seq += [(I("http://a/s"), I("http://a/p"), L("last"), g1)]
    case = {"family": "longrun", "cls": "graph", "preset": [4000, 150, 32], "delimited": True,
            "writer": writer, "n": n}
    acc.evals += 1
    acc.nontrivial += 1
    try:
        data = DR.g_write(seq, "graph", DR.make_options("graph", (4000, 150, 32), 250, True), writer)
    except Exception as e:  # noqa: BLE001
        judge(case, seq, None, e, acc)
    else:
        judge(case, seq, data, None, acc)
    return acc.out()


def midns_shard(job) -> dict:
    """statement, namespace_declaration(), statement on one stream (public calls): the second
    statement still omits what it shares with the first."""
    import io  # noqa: PLC0415

    from mc import drivers as DR  # noqa: PLC0415
    from pyjelly.serialize.ioutils import write_delimited  # noqa: PLC0415

    _, api, cls = job
    DR.ensure_rdflib_plugin()
    acc = pool.Acc()
    alpha = AL.alphabet("repeat", 3 if cls == "triple" else 4)
    for i in range(6):
        for j in range(6):
            seq = [alpha[i], alpha[j]]
            if api == "rdflib" and not all(T.is_rdf11(x) for x in seq):
                continue
            case = {"family": "midns", "api": api, "cls": cls, "preset": [8, 2, 1],
                    "delimited": True, "ns": True, "seq": [i, j]}
            acc.evals += 1
            acc.nontrivial += 1
            opts = DR.make_options(cls, (8, 2, 1), 250, True, ns=True,
                                   generalized=api == "generic", rdf_star=api == "generic")
            stream = DR.g_stream(cls, opts) if api == "generic" else DR.r_stream(cls, opts)
            conv = T.st_to_generic if api == "generic" else T.st_to_rdflib
            stream.enroll()
            try:
                for k, st in enumerate(seq):
                    (stream.triple if cls == "triple" else stream.quad)(conv(st))
                    if k == 0:
                        stream.namespace_declaration("mid", "http://mid.example/ns#")
                out = io.BytesIO()
                write_delimited(stream.flow.to_stream_frame(), out)
            except Exception as e:  # noqa: BLE001
                judge(case, seq, None, e, acc)
                continue
            judge(case, seq, out.getvalue(), None, acc)
    return acc.out()


def ns_shard(job) -> dict:
    """Streams that carry namespace declarations (C14's space): the IRI of a declaration goes
    through the same tables and delta rules as any other IRI."""
    from mc import drivers as DR  # noqa: PLC0415
    from mc.checks import c14  # noqa: PLC0415

    _, api, cls, pi, lo, hi = job
    DR.ensure_rdflib_plugin()
    acc = pool.Acc()
    preset = c14.PRESETS[pi]
    blists = c14.binding_lists(2)
    for bl in blists[lo:hi]:
        for seq in c14.stmt_seqs(cls):
            acc.evals += 1
            if not bl or not all(AL.fits(st, preset) for st in seq):
                acc.counters["out_of_domain"] += 1
                continue
            acc.nontrivial += 1
            case = {"ns": True, "api": api, "cls": cls, "preset": list(preset), "delimited": True,
                    "bindings": list(bl), "seq": [list(x) for x in seq]}
            run_ns(case, acc)
    acc.sample({"ns": True, "api": api, "cls": cls, "preset": preset}, cap=1)
    return acc.out()


def run_ns(case: dict, acc) -> None:
    from mc.checks import c14  # noqa: PLC0415

    seq = [T.from_json(x) for x in case["seq"]]
    try:
        data = c14.write(case["api"], case["cls"], seq, [c14.BINDINGS[i] for i in case["bindings"]],
                         tuple(case["preset"]), True)
    except Exception as e:  # noqa: BLE001
        judge(case, seq, None, e, acc)
    else:
        judge(case, seq, data, None, acc)


def shard(job) -> dict:
    if job[0] == "N":
        out = ns_shard(job)
        out["extra"] = {}
        return out
    if job[0] == "MN":
        out = midns_shard(job)
        out["extra"] = {}
        return out
    if job[0] == "L":
        out = longrun_shard(job)
        out["extra"] = {}
        return out
    if job[0] == "R":
        from mc import rtrdflib  # noqa: PLC0415

        out = rtrdflib.run_job(job, judge)
    else:
        out = RT.run_job(job, judge)
    out["extra"] = {}
    return out


def run(ctx) -> None:
    L = 3 if ctx.quick else 4
    jobs = RT.core_jobs(L, parts=4 if ctx.quick else 16) + RT.scale_jobs()
    expected = RT.expected_cases(jobs)
    from mc import rtrdflib  # noqa: PLC0415

    rjobs = rtrdflib.jobs(L, parts=2 if ctx.quick else 12)
    expected += rtrdflib.expected_cases(rjobs)
    from mc import drivers as DR  # noqa: PLC0415
    from mc.checks import c14  # noqa: PLC0415

    nb = len(c14.binding_lists(2))
    njobs = [("N", api, cls, pi, lo, hi) for api in ("generic", "rdflib") for cls in DR.CLASSES
             for pi in range(len(c14.PRESETS)) for lo, hi in pool.split_range(nb, 2)]
    expected += sum((j[5] - j[4]) * len(c14.stmt_seqs(j[2])) for j in njobs)
    ljobs = [("L", w, n) for w in ("stream_frames_gen", "stream_frames_sink") for n in (4096, 4097, 10000)]
    expected += len(ljobs)
    mjobs = [("MN", api, cls) for api in ("generic", "rdflib") for cls in ("triple", "quad")]
    alpha3 = AL.alphabet("repeat", 3)
    alpha4 = AL.alphabet("repeat", 4)
    for _, api, cls in mjobs:
        al = alpha3 if cls == "triple" else alpha4
        ok = [x for x in al if api == "generic" or T.is_rdf11(x)]
        expected += len(ok) ** 2
    njobs = njobs + ljobs + mjobs
    merged = pool.merge(pool.pmap(shard, jobs + rjobs + njobs))
    ctx.add(merged)
    if merged["evals"] != expected:
        from mc.env import HarnessError  # noqa: PLC0415

        raise HarnessError(f"enumerated {merged['evals']} cases, closed form says {expected}")
    ctx.coverage.update(
        evaluations=merged["evals"],
        distinct_nontrivial=merged["nontrivial"],
        streams_audited=merged["counters"].get("audited", 0),
        not_audited_invalid=merged["counters"].get("invalid_stream", 0),
        exhaustive=True,
        samples=merged["samples"],
        rule=(
            "every stream of C01's space A audited row by row: no entry for a resident string; "
            "API-equal term in the same slot of the previous statement => slot unset; entry/prefix/"
            "name ids are 0 whenever the delta rule allows; GRAPHS: graph starts <= runs of equal "
            "graph names; row bytes <= naive one-entry-per-use encoding; the same id rules on "
            "streams with namespace declarations (C14's binding lists, both integrations). "
            "non-trivial = sequence "
            "with an elision opportunity or forced eviction"
        ),
    )


def replay(case: dict) -> list:
    if case.get("family") == "midns":
        out = midns_shard(("MN", case["api"], case["cls"]))
        return [v["what"] for v in out["violations"] if v["case"]["seq"] == case["seq"]]
    if case.get("family") == "longrun":
        out = longrun_shard(("L", case["writer"], case["n"]))
        return [v["what"] for v in out["violations"]]
    if case.get("ns"):
        from mc import drivers as DR  # noqa: PLC0415

        DR.ensure_rdflib_plugin()
        acc = pool.Acc()
        run_ns(case, acc)
        return [v["what"] for v in acc.violations]
    if case.get("api") == "rdflib":
        from mc import rtrdflib  # noqa: PLC0415

        return rtrdflib.replay_case(case, judge)
    return RT.replay_case(case, judge)
