"""C10 - a truncated stream yields only a correct prefix of the data.

Every cut offset of every base delimited stream x {BytesIO, non-seekable raw}
x flat and grouped parsers of both integrations.
"""
from __future__ import annotations

import io

from mc import corpus, faultio, pool

LEVEL = "fault_enumeration"


def consume_flat(api: str, src, **kw) -> tuple[list, str | None]:
    from mc import terms as T  # noqa: PLC0415

    if api == "generic":
        from pyjelly.integrations.generic.parse import parse_jelly_flat  # noqa: PLC0415

        conv = T.ev_from_generic
    else:
        from pyjelly.integrations.rdflib.parse import parse_jelly_flat  # noqa: PLC0415

        conv = T.ev_from_rdflib
    out: list = []
    try:
        for item in parse_jelly_flat(src, **kw):
            out.append(conv(item))
    except Exception as e:  # noqa: BLE001
        return out, type(e).__name__
    return out, None


def consume_grouped(api: str, src, keep: bool = True, meta: bool = False) -> tuple[list, str | None]:
    """Concatenated content of the sinks yielded before the end / the exception."""
    from mc import drivers as DR  # noqa: PLC0415
    from mc import terms as T  # noqa: PLC0415

    out: list = []
    kept: list = []  # the containers themselves: a consumer may look at them later

    def content(c) -> list:
        if api == "generic":
            return ([("ns", p, T.from_generic(i)) for p, i in c.namespaces]
                    + [("st", T.norm_st(T.st_from_generic(s))) for s in c])
        return DR._graph_events(c)

    exc = None
    try:
        if api == "generic":
            from pyjelly.integrations.generic.parse import parse_jelly_grouped  # noqa: PLC0415
        else:
            from pyjelly.integrations.rdflib.parse import parse_jelly_grouped  # noqa: PLC0415
        kw = {}
        if meta:  # the caller asks for frame metadata through a context variable
            import contextvars  # noqa: PLC0415

            kw["frame_metadata"] = contextvars.ContextVar("frame_metadata")
        for c in parse_jelly_grouped(src, **kw):
            if keep:
                kept.append(c)
            out += content(c)
    except Exception as e:  # noqa: BLE001
        exc = type(e).__name__
    later = [e for c in kept for e in content(c)] if keep else out
    if keep and sorted(map(repr, later)) != sorted(map(repr, out)):
        out = [("changed-after-yield", len(out), len(later))]
    return out, exc


def consume_to_graph(api: str, src, quads: bool, tx: bool = False) -> tuple[list, str | None]:
    """What the caller's Graph/Dataset/sink holds after the parse returned or raised."""
    from mc import drivers as DR  # noqa: PLC0415

    if api == "generic":
        from pyjelly.integrations.generic.generic_sink import GenericStatementSink  # noqa: PLC0415
        from pyjelly.integrations.generic.parse import parse_jelly_to_graph  # noqa: PLC0415
        from mc import terms as T  # noqa: PLC0415

        sink = GenericStatementSink()
        exc = None
        try:
            parse_jelly_to_graph(src, sink_factory=lambda: sink)
        except Exception as e:  # noqa: BLE001
            exc = type(e).__name__
        return [("st", T.norm_st(T.st_from_generic(s))) for s in sink], exc
    import rdflib  # noqa: PLC0415

    if tx:
        # a store with transactions (rollback really removes what was added since the last commit)
        from rdflib.plugins.stores.auditable import AuditableStore  # noqa: PLC0415
        from rdflib.plugins.stores.memory import Memory  # noqa: PLC0415

        store = AuditableStore(Memory())
        g = rdflib.Dataset(store=store) if quads else rdflib.Graph(store=store)
    else:
        g = rdflib.Dataset() if quads else rdflib.Graph()
    exc = None
    try:
        g.parse(src, format="jelly")
    except Exception as e:  # noqa: BLE001
        exc = type(e).__name__
    return DR._graph_events(g), exc


def judge(entry, k: int, got: list, mode: str, api: str) -> str | None:
    full = entry["flat"]
    complete = []
    for (lo, hi), evs in zip(entry["offsets"], entry["per_frame"]):
        if hi <= k:
            complete += evs
        else:
            break
    if mode in ("graph_parse", "graph_parse_tx"):
        gs, fulls = set(got), {e for e in full if e[0] == "st"}
        want = {e for e in complete if e[0] == "st"}
        if not gs <= fulls:
            return f"after Graph.parse the graph holds statements not in the original: {gs - fulls}"
        if not want <= gs:
            return (f"after Graph.parse the graph lacks {len(want - gs)} statements of frames that "
                    f"were delivered completely before offset {k}")
        return None
    if mode in ("flat", "flat_strict"):
        if got != full[: len(got)]:
            return f"yielded {got} which is not a prefix of the original {full}"
        if len(got) < len(complete):
            return (f"only {len(got)} items yielded although frames holding {len(complete)} "
                    f"items were delivered completely before offset {k}")
        return None
    # grouped: sinks are sets/ordered containers; compare statements only
    if got and got[0][0] == "changed-after-yield":
        return (f"the groups handed out held {got[0][1]} items when they were yielded and hold "
                f"{got[0][2]} after the parser stopped")
    gs = [e for e in got if e[0] == "st"]
    want = [e for e in complete if e[0] == "st"]
    fulls = [e for e in full if e[0] == "st"]
    if api == "rdflib":
        # rdflib sinks are sets: compare as sets (frame granularity keeps the prefix property)
        if not set(gs) <= set(fulls):
            return f"grouped parse yielded statements not in the original: {set(gs) - set(fulls)}"
        if not set(want) <= set(gs):
            return f"grouped parse lost statements of fully delivered frames: {set(want) - set(gs)}"
        return None
    if gs != fulls[: len(gs)]:
        return f"grouped parse yielded {gs}, not a prefix of {fulls}"
    if len(gs) < len(want):
        return f"grouped parse yielded {len(gs)} statements, {len(want)} were fully delivered"
    return None


_TMP = None


_HUGE: dict = {}


def huge_entry() -> dict:
    """A small frame, a frame of a little more than 1 MiB, a small frame."""
    if not _HUGE:
        from mc import drivers as DR  # noqa: PLC0415
        from mc.terms import I, L  # noqa: PLC0415

        seq = [(I("http://h/s"), I("http://h/p"), L("first")),
               (I("http://h/s"), I("http://h/p"), L("z" * 1_052_000)),
               (I("http://h/s"), I("http://h/q"), L("last"))]
        data = corpus.recut_per_statement(
            DR.g_write(seq, "triple", DR.make_options("triple", (16, 4, 4), 250, True)))
        e = corpus._entry("mib-frame/triple", "triple", data, True)
        e["huge"] = True
        _HUGE["e"] = e
    return _HUGE["e"]


def run_case(case: dict) -> str | None:
    if case["stream"] == "mib-frame/triple":
        entry = huge_entry()
    else:
        entry = next(e for e in corpus.base_streams(case["corpus"])
                     if e["name"] == case["stream"])
    k = case["cut"]
    data = entry["data"][:k]
    def on_disk():
        # a regular file on disk that holds just the truncated bytes
        global _TMP
        if _TMP is None:
            import atexit  # noqa: PLC0415
            import os  # noqa: PLC0415
            import tempfile  # noqa: PLC0415

            fd, _TMP = tempfile.mkstemp(prefix=f"c10_{os.getppid()}_", suffix=".jelly")
            os.close(fd)
            atexit.register(lambda p=_TMP: os.path.exists(p) and os.unlink(p))
        with open(_TMP, "wb") as f:
            f.write(data)
        return open(_TMP, "rb")  # noqa: SIM115

    src = {"bytesio": lambda: io.BytesIO(data), "raw": lambda: faultio.ScheduleRaw(data),
           "file": on_disk,
           # the connection drops: the transport raises instead of reporting end-of-file
           "raw-reset": lambda: faultio.ResetRaw(data),
           "raw-reset-7": lambda: faultio.ResetRaw(data, 7)}[case["source"]]()
    if case["mode"] in ("graph_parse", "graph_parse_tx"):
        got, exc = consume_to_graph(case["api"], src, entry["cls"] != "triple",
                                    tx=case["mode"] == "graph_parse_tx")
    elif case["mode"] == "flat_strict":
        got, exc = consume_flat(case["api"], src, logical_type_strict=True)
    elif case["mode"] == "grouped_meta":
        got, exc = consume_grouped(case["api"], src, meta=True)
    else:
        fn = consume_flat if case["mode"] == "flat" else consume_grouped
        got, exc = fn(case["api"], src)
    if case["source"] == "file":
        src.close()
    return judge(entry, k, got, case["mode"], case["api"])


def shard(job) -> dict:
    size, idx = job
    entry = dict(corpus.base_streams(size)[idx]) if idx >= 0 else dict(huge_entry())
    acc = pool.Acc()
    n = len(entry["data"])
    # (strict parsing accepts the stream at all only if its header states a flat logical type)
    from mc import jwire  # noqa: PLC0415

    try:
        first = jwire.read_delimited(entry["data"])
        opt = next(r for f in first for r in f["rows"] if r["kind"] == "options")
        entry["flat_logical"] = opt["v"].get("logical_type") in (1, 2)
    except Exception:  # noqa: BLE001
        entry["flat_logical"] = False
    ends = {hi for _, hi in entry["offsets"]}
    if entry.get("huge"):
        cuts = sorted({min(n, max(0, b + d)) for _, b in entry["offsets"] for d in range(-2, 3)}
                      | {0, n, n // 2})
    elif entry.get("big"):
        # big streams: every offset within 3 bytes of a frame boundary, plus every 257th offset
        cuts = sorted({min(n, max(0, b + d)) for _, b in entry["offsets"] for d in range(-3, 4)}
                      | {lo + d for lo, _ in entry["offsets"] for d in range(0, 4)}
                      | set(range(0, n + 1, 257)) | {n})
    else:
        cuts = range(n + 1)
    for k in cuts:
        for source in ("bytesio", "raw", "raw-reset", "raw-reset-7", "file"):
            for api in ("generic", "rdflib"):
                if api == "rdflib" and not entry["rdf11"]:
                    continue
                strict = ("flat_strict",) if entry.get("flat_logical") and source in (
                    "bytesio", "file") else ()
                for mode in ("flat", "grouped", "graph_parse") + strict + (
                        ("grouped_meta",) if source in ("bytesio", "raw") else ()) + (
                        ("graph_parse_tx",) if api == "rdflib" and source == "bytesio"
                        and entry["cls"] == "triple" else ()):
                    case = {"corpus": size, "stream": entry["name"], "cut": k, "source": source,
                            "api": api, "mode": mode}
                    acc.evals += 1
                    if k not in ends and k != 0:
                        acc.nontrivial += 1  # a cut strictly inside a frame
                    try:
                        r = run_case(case)
                    except Exception as e:  # noqa: BLE001
                        r = f"harness/parse driver raised {type(e).__name__}: {e}"
                    if r:
                        acc.violation({"mode": mode, "api": api, "source": source,
                                       "cls": entry["cls"]},
                                      f"{entry['name']} cut at {k}/{n} ({source}, {api} {mode}): {r}",
                                      case)
    acc.sample({"stream": entry["name"], "bytes": n, "frames": len(entry["offsets"]),
                "cuts": n + 1}, cap=1)
    return acc.out()


def run(ctx) -> None:
    size = "small" if ctx.quick else "full"
    streams = corpus.base_streams(size)
    try:
        merged = pool.merge(pool.pmap(shard, [(size, i) for i in range(-1, len(streams))]))
    finally:
        import glob  # noqa: PLC0415
        import os  # noqa: PLC0415
        import tempfile  # noqa: PLC0415

        for f in glob.glob(os.path.join(tempfile.gettempdir(), f"c10_{os.getpid()}_*.jelly")):
            os.unlink(f)
    ctx.add(merged)
    ctx.coverage.update(
        evaluations=merged["evals"],
        distinct_nontrivial=merged["nontrivial"],
        base_streams=len(streams),
        total_bytes=sum(len(e["data"]) for e in streams),
        exhaustive=True,
        samples=merged["samples"],
        rule=(
            "every byte offset 0..len of every base stream (6 scopes x 3 physical types x frame "
            "sizes, namespace and empty-frame streams) x {BytesIO, a regular file on disk, "
            "non-seekable raw ending in EOF, "
            "non-seekable raw ending in ConnectionResetError (whole / 7-byte segments)} x {flat, "
            "grouped, and what a Graph holds after Graph.parse (rdflib)} x {generic, rdflib (RDF 1.1 "
            "streams)}; non-trivial = cut strictly inside a "
            "frame; expected content per frame comes from the reference decoder"
        ),
    )


def replay(case: dict) -> list:
    r = run_case(case)
    return [r] if r else []
