"""C02 - rdflib Graph/Dataset round trip preserves the RDF data."""
from __future__ import annotations

from mc import drivers as DR
from mc import pool, rtrdflib as RR
from mc import terms as T

LEVEL = "exploration"


def judge(case, seq, data, exc, acc) -> None:
    sig = {"cls": case["cls"], "writer": case["writer"], "logical": case["logical"],
           "delimited": case["delimited"]}
    if exc is not None:
        if case.get("out_of_domain"):
            acc.counters["refused_out_of_domain"] += 1  # (a statement too big for a table)
            return
        acc.violation({**sig, "fail": "write-raised", "exc": type(exc).__name__},
                      f"in-domain graph refused: {type(exc).__name__}: {exc} case={case}", case)
        return
    expect = set(T.norm_seq(seq))
    quads = case["cls"] != "triple"
    readers = DR.R_READERS if (case["writer"] != "graph_serialize_stream" or len(seq) <= 2
                               or case.get("family") == "scale") else ("flat", "graph_parse")
    for reader in readers:
        try:
            evs = DR.r_read(data, reader, quads=quads)
        except Exception as e:  # noqa: BLE001
            acc.violation({**sig, "fail": "read-raised", "reader": reader,
                           "exc": type(e).__name__},
                          f"own output not readable by {reader}: {type(e).__name__}: {e} "
                          f"case={case}", {**case, "reader": reader})
            continue
        acc.counters["reads"] += 1
        got = DR.stmts_of(evs)
        if set(got) != expect:
            acc.violation({**sig, "fail": "mismatch", "reader": reader},
                          f"round trip differs ({reader}): missing {sorted(expect - set(got), key=repr)} "
                          f"extra {sorted(set(got) - expect, key=repr)} case={case}",
                          {**case, "reader": reader})
        elif (reader == "flat" and len(got) != len(set(seq))  # (distinct as rdflib terms)
              and case["writer"] not in ("stream_frames_gen", "flat_to_frames", "flat_to_file",
                                         "flat_to_file_default", "stream_frames_list",
                                         "flat_to_frames_iter")):
            acc.violation({**sig, "fail": "duplicates", "reader": reader},
                          f"flat parser yields {len(got)} statements for {len(set(seq))} distinct "
                          f"ones case={case}", {**case, "reader": reader})


def shard(job) -> dict:
    # (statements too big for a table may be refused; whatever is written must read back)
    return RR.run_job(job, judge, include_out_of_domain=True)


def run(ctx) -> None:
    RR.assert_fixpoints()
    L = 3 if ctx.quick else 4
    jobs = RR.jobs(L, parts=2 if ctx.quick else 12, entry_len=2 if ctx.quick else 3)
    expected = RR.expected_cases(jobs)
    merged = pool.merge(pool.pmap(shard, jobs))
    ctx.add(merged)
    if merged["evals"] != expected:
        from mc.env import HarnessError  # noqa: PLC0415

        raise HarnessError(f"enumerated {merged['evals']} cases, closed form says {expected}")
    ctx.coverage.update(
        evaluations=merged["evals"],
        distinct_nontrivial=merged["nontrivial"],
        out_of_domain=merged["counters"].get("out_of_domain", 0),
        round_trip_reads=merged["counters"].get("reads", 0),
        exhaustive=True,
        samples=merged["samples"],
        scopes={k: v["triples"] for k, v in RR.R_SCOPES.items()},
        rule=(
            f"every insertion sequence of length<={L} over 5 RDF 1.1 scopes (6 statements each; "
            "quads with default/IRI/BNode graph names) x {Graph+TripleStream, Dataset+QuadStream, "
            "Dataset+GraphStream} x 4 presets x frame_size{1,250} x {flat delimited, grouped "
            "delimited, flat non-delimited} via Graph.serialize(stream=...); plus every sequence "
            "of length<=LB x every rdflib write entry point x every read entry point; sets of "
            "statements compared term by term; non-trivial = at least two distinct statements"
        ),
    )


def replay(case: dict) -> list:
    return RR.replay_case(case, judge)
