"""C08 - delimited vs non-delimited framing is always detected correctly.

Abstract level: all 2^24 three-byte headers against a ground-truth grammar
(derived from the wire format, not from pyjelly).  Concrete level: real
streams from the real serializer in both modes for every stream-name length,
also re-cut so that the first frame holds only the options row, and with
leading empty frames.
"""
from __future__ import annotations

from mc import drivers as DR
from mc import jwire, pool
from mc import terms as T
from mc.terms import I, L

LEVEL = "exploration"


def truth(b0: int, b1: int, b2: int) -> str | None:
    """'D' / 'N' / None (header cannot start a stream of the property's domain)."""
    d = n = False
    # delimited: varint(L) then a frame that is empty or starts with a row (tag 0x0A, len R)
    if b0 == 0x00:
        d = True  # empty first frame: anything may follow
    elif b0 < 0x80:
        # L = b0 in 1..127; the row (tag, length R, R bytes) must fit in the frame
        if b0 >= 2 and b1 == 0x0A and b2 <= b0 - 2:
            d = True
    elif b1 < 0x80:
        # two-byte varint: L = (b0&0x7f) | b1<<7 >= 128 (b1 >= 1 for a minimal encoding)
        if b1 >= 1 and b2 == 0x0A:
            d = True
    else:
        # varint of three or more bytes (L >= 16384): b2 is another varint byte
        if b2 != 0x00:
            d = True
    # non-delimited: tag 0x0A, varint(R), then the options row (tag 0x0A inside the row)
    if b0 == 0x0A:
        if b1 < 0x80:
            if b1 >= 2 and b2 == 0x0A:
                n = True
        elif b2 != 0x00:
            n = True  # R >= 128: b2 is the second varint byte (final and non-zero, or continuation)
    if d and n:
        return "BOTH"
    return "D" if d else "N" if n else None


def sweep_shard(job) -> dict:
    lo, hi = job
    from pyjelly.parse.ioutils import delimited_jelly_hint  # noqa: PLC0415

    acc = pool.Acc()
    nd = nn = 0
    for b0 in range(lo, hi):
        for b1 in range(256):
            for b2 in range(256):
                t = truth(b0, b1, b2)
                if t is None:
                    continue
                if t == "BOTH":
                    acc.extra["both"] = [b0, b1, b2]
                    continue
                h = bytes((b0, b1, b2))
                got = delimited_jelly_hint(h)
                if t == "D":
                    nd += 1
                else:
                    nn += 1
                if got != (t == "D"):
                    acc.violation(
                        {"level": "header", "truth": t},
                        f"header {h.hex()} can only start a "
                        f"{'delimited' if t == 'D' else 'non-delimited'} stream but is classified "
                        f"as {'delimited' if got else 'non-delimited'}",
                        {"level": "header", "header": h.hex()})
    acc.evals = (hi - lo) * 65536
    acc.nontrivial = nd + nn
    acc.counters["d_possible"] = nd
    acc.counters["n_possible"] = nn
    return acc.out()


SEQ3 = [(I("http://a/x"), I("http://a/y"), L("x")), (I("http://a/x"), I("http://b#y"), L("y", "en"))]
SEQ4 = [(*SEQ3[0], T.DEFAULT), (*SEQ3[1], I("http://a/g"))]
PRESETS = ((8, 0, 0), (16, 0, 0), (127, 0, 0), (4000, 150, 32))


# (generalized, rdf_star, logical type, namespace declarations i.e. version 2)
FLAGS = [(g, r, lt, ns) for ns in (True, False) for g in (False, True) for r in (False, True)
         for lt in (0, None)]


def concrete_variants(cls: str, preset, name: str, flags=(True, True, None)):
    """Yield (label, bytes) for one configuration; all denote the same content.

    The single frame is produced by the real Stream/flow API and written with the
    real write_single / write_delimited; the re-cut variants reuse its row bytes.
    """
    import io  # noqa: PLC0415

    from pyjelly.serialize.flows import ManualFrameFlow  # noqa: PLC0415
    from pyjelly.serialize.ioutils import write_delimited, write_single  # noqa: PLC0415

    seq = SEQ3 if cls == "triple" else SEQ4
    g, r, lt = flags[:3]
    ns = bool(flags[3]) if len(flags) > 3 else False
    opts = DR.make_options(cls, preset, 250, False, lt, stream_name=name, generalized=g,
                           rdf_star=r, ns=ns)
    opts.flow = ManualFrameFlow(logical_type=opts.logical_type)
    stream = DR.g_stream(cls, opts)
    stream.enroll()
    for st in seq:
        gs = T.st_to_generic(st)
        stream.triple(gs) if cls == "triple" else stream.quad(gs)
    frame = stream.flow.to_stream_frame()
    out_d, out_n = io.BytesIO(), io.BytesIO()
    write_delimited(frame, out_d)
    write_single(frame, out_n)
    d, n = out_d.getvalue(), out_n.getvalue()
    yield "delimited", d
    yield "non-delimited", n
    frames = jwire.read_single(n)  # (row bytes from the non-delimited form: no length prefix)
    rows = [r for f in frames for r in f["rows"]]
    head_only = jwire.write_delimited([jwire.enc_frame(rows[:1]), jwire.enc_frame(rows[1:])])
    yield "options-only-first-frame", head_only
    yield "one-empty-frame-first", b"\x00" + d
    yield "two-empty-frames-first", b"\x00\x00" + head_only
    if flags[:3] == (True, True, None) and len(name) in (0, 7):
        for k in (999, 1000, 1001, 4096):
            yield f"{k}-empty-frames-first", b"\x00" * k + d


def run_concrete(case) -> list[tuple[str, str]]:
    cls, preset, nlen = case["cls"], tuple(case["preset"]), case["name_len"]
    name = ("n" * nlen) if case.get("ascii", True) else ("é" * (nlen // 2) + "n" * (nlen % 2))
    seq = SEQ3 if cls == "triple" else SEQ4
    expect = T.norm_seq(seq)
    fails = []
    import io  # noqa: PLC0415

    from mc import faultio  # noqa: PLC0415

    for label, data in concrete_variants(cls, preset, name, tuple(case.get("flags", (True, True, None)))):
        # the classification the parser itself reports for this stream
        try:
            from pyjelly.parse.ioutils import get_options_and_frames  # noqa: PLC0415

            popts, _ = get_options_and_frames(io.BytesIO(data))
            if bool(popts.params.delimited) != (label != "non-delimited"):
                fails.append((label, f"{label} stream (header {data[:3].hex()}, version "
                                     f"{popts.params.version}) is reported by get_options_and_frames "
                                     f"as delimited={popts.params.delimited}"))
        except Exception:  # noqa: BLE001
            pass  # (a stream that fails to parse is reported below)

        def after_preamble(k: int):
            r = io.BufferedReader(faultio.ScheduleRaw(b"P" * k + data, seekable=True),
                                  buffer_size=16)
            r.read(k)
            return r

        def positioned(pre: bytes):
            # the stream starts where the caller left the (seekable) input, not at offset 0;
            # what precedes it looks like the other framing mode
            b = io.BytesIO(pre + data)
            b.read(len(pre))
            return b

        for api, source in (("generic", "bytesio"), ("generic", "raw"), ("generic", "buffered"),
                            ("generic", "bytesio-after-zeros"), ("generic", "bytesio-after-0a"),
                            ("rdflib", "bytesio-after-zeros"), ("rdflib", "bytesio-after-0a"),
                            ("rdflib", "bytesio"), ("rdflib", "raw"),
                            ("generic", "preamble14"), ("generic", "preamble15"),
                            ("generic", "tinybuf"), ("generic", "raw1"), ("generic", "raw2"),
                            ("generic", "seekraw"), ("rdflib", "seekraw"),
                            ("generic", "shortbuf1"), ("generic", "shortbuf2"),
                            ("rdflib", "shortbuf1"), ("generic", "shortbuf5"),
                            ("rdflib-plugin", "bytesio")):
            if source in ("raw1", "shortbuf1", "shortbuf2", "shortbuf5") and len(data) > 100_000:
                continue  # (one byte at a time through megabytes adds nothing but time)
            src = {"bytesio": lambda: io.BytesIO(data),
                   "raw": lambda: faultio.ScheduleRaw(data),
                   "buffered": lambda: io.BufferedReader(faultio.ScheduleRaw(data, default=5)),
                   "raw1": lambda: faultio.ScheduleRaw(data, default=1),
                   # a seekable raw source (io.FileIO / open(..., buffering=0))
                   "seekraw": lambda: faultio.ScheduleRaw(data, seekable=True),
                   "raw2": lambda: faultio.ScheduleRaw(data, (2,)),
                   # a buffered (not raw) non-seekable input that answers with short reads
                   "shortbuf1": lambda: faultio.ShortBuffered(data, 1),
                   "shortbuf2": lambda: faultio.ShortBuffered(data, 2),
                   "shortbuf5": lambda: faultio.ShortBuffered(data, 5),
                   "bytesio-after-zeros": lambda: positioned(b"\x00\x00\x00\x00\x07"),
                   "bytesio-after-0a": lambda: positioned(b"\x0a\x03\x0a\x01\x00"),
                   "preamble14": lambda: after_preamble(14),
                   "preamble15": lambda: after_preamble(15),
                   "tinybuf": lambda: io.BufferedReader(
                       faultio.ScheduleRaw(data, seekable=True), buffer_size=2)}[source]()
            try:
                if api == "rdflib-plugin":  # Graph.parse(format="jelly")
                    got = DR.stmts_of(DR.r_read(data, "graph_parse", quads=cls != "triple"))
                    if set(got) == set(expect):
                        got = expect
                else:
                    evs = (DR.g_read if api == "generic" else DR.r_read)(data, "flat", src=src)
                    got = DR.stmts_of(evs)
            except Exception as e:  # noqa: BLE001
                fails.append((label, f"{label} stream (header {data[:3].hex()}, {len(data)} bytes, "
                                     f"stream_name of {nlen} bytes) from a {source} source fails "
                                     f"to parse via {api}: "
                                     f"{type(e).__name__}: {e}"))
                continue
            if got != expect:
                fails.append((label, f"{label} stream (header {data[:3].hex()}) parses to {got}"))
    return fails


def run_modes(case: dict) -> list[tuple[str, str]]:
    """The same five statements through Graph.serialize() in both modes, for every way of
    asking for frames (inferred flow, explicit flow objects, small frame sizes): both outputs
    are classified as written and parse to the same statements."""
    import io  # noqa: PLC0415

    import rdflib  # noqa: PLC0415
    from pyjelly.parse.ioutils import get_options_and_frames  # noqa: PLC0415
    from pyjelly.serialize import flows  # noqa: PLC0415

    DR.ensure_rdflib_plugin()
    seq = [(I(f"http://a/s{i}"), I("http://a/p"), L(str(i))) for i in range(5)]
    results = {}
    for dl in (True, False):
        flow = None if case["flow"] == "inferred" else getattr(flows, case["flow"])(
            **({"frame_size": case["frame_size"]} if "Flat" in case["flow"] or
               "Bounded" in case["flow"] else {}))
        try:
            opts = DR.make_options("triple", (8, 2, 0), case["frame_size"], dl, case["logical"],
                                   generalized=False, rdf_star=False, flow=flow)
            if case.get("call") == "stream-only":
                # the options travel inside the stream object only
                out = io.BytesIO()
                DR.r_graph(seq).serialize(destination=out, format="jelly",
                                          stream=DR.r_stream("triple", opts))
                data = out.getvalue()
            else:
                data = DR.r_graph(seq).serialize(format="jelly", options=opts, encoding="utf-8")
        except Exception as e:  # noqa: BLE001
            results[dl] = ("refused", type(e).__name__)
            continue
        try:
            popts, _ = get_options_and_frames(io.BytesIO(data))
            got = sorted(DR.stmts_of(DR.r_read(data, "flat")), key=repr)
            results[dl] = ("ok", bool(popts.params.delimited), got)
        except Exception as e:  # noqa: BLE001
            results[dl] = ("unreadable", f"{type(e).__name__}: {e}")
    fails = []
    want = sorted(T.norm_seq(seq), key=repr)
    for dl, r in results.items():
        if r[0] == "unreadable":
            fails.append(("modes", f"written with delimited={dl}: cannot be read back: {r[1]}"))
        elif r[0] == "ok" and (r[1] != dl or r[2] != want):
            fails.append(("modes", f"written with delimited={dl}: classified delimited={r[1]}, "
                                   f"{len(r[2])} of {len(want)} statements read back"))
    return fails


TARGET_FRAME_LENGTHS = (127, 128, 129, 16383, 16384, 16385, 16447, 16511, 16512,
                        2097151, 2097152, 2097153, 3000000)


def name_len_for_frame(cls: str, preset, target: int) -> int | None:
    """stream_name length that makes the (single) delimited frame exactly `target` bytes long."""
    def flen(n):
        vs = dict(concrete_variants(cls, preset, "n" * n))
        return len(vs["non-delimited"])  # == length of the single frame

    n = max(0, target - flen(0))
    for _ in range(8):
        f = flen(n)
        if f == target:
            return n
        n = max(0, n + (target - f))
    return None


def concrete_shard(job) -> dict:
    lens, = job
    acc = pool.Acc()
    if lens and lens[0] == "targets":
        for t in lens[1:]:
            for cls in ("triple", "quad"):
                n = name_len_for_frame(cls, PRESETS[3], t)
                if n is None:
                    acc.counters["target_unreachable"] += 1
                    continue
                case = {"level": "stream", "cls": cls, "preset": list(PRESETS[3]), "name_len": n,
                        "ascii": True, "flags": [True, True, None], "frame_length": t}
                acc.evals += 5 * 14
                acc.nontrivial += 5
                acc.extra.setdefault("headers", set()).update(
                    d[:3].hex() for _, d in concrete_variants(cls, PRESETS[3], "n" * n))
                for label, msg in run_concrete(case):
                    acc.violation({"level": "stream", "variant": label}, msg, case)
        acc.sample({"level": "stream", "frame_lengths": list(lens[1:])}, cap=1)
        acc.extra["headers"] = sorted(acc.extra.get("headers", ()))
        return acc.out()
    for nlen in lens:
        for cls in ("triple", "quad"):
            for preset in PRESETS:
                for ascii_ in (True, False):
                    for flags in (FLAGS if nlen <= 12 else (FLAGS[-1], FLAGS[7])):
                        case = {"level": "stream", "cls": cls, "preset": list(preset),
                                "name_len": nlen, "ascii": ascii_, "flags": list(flags)}
                        acc.evals += 5 * 14
                        acc.nontrivial += 5
                        acc.extra.setdefault("headers", set()).update(
                            d[:3].hex() for _, d in concrete_variants(
                                cls, preset, "n" * nlen, flags))
                        for label, msg in run_concrete(case):
                            acc.violation({"level": "stream", "variant": label}, msg, case)
        acc.sample({"level": "stream", "name_len": nlen}, cap=1)
    acc.extra["headers"] = sorted(acc.extra.get("headers", ()))
    return acc.out()


def run(ctx) -> None:
    jobs = [("sweep", (lo, hi)) for lo, hi in pool.split_range(256, 64)]
    lens = list(range(0, 301)) + [16370, 16383, 16384] if not ctx.quick else \
        list(range(0, 140)) + [246, 247, 254, 255, 256, 374]
    cjobs = [("concrete", (lens[i::16],)) for i in range(16)]
    tl = TARGET_FRAME_LENGTHS if not ctx.quick else TARGET_FRAME_LENGTHS[:-1]
    cjobs += [("concrete", (["targets", t],)) for t in tl]
    merged = pool.merge(pool.pmap(_dispatch, jobs + cjobs + [("modes",)]))
    ctx.add(merged)
    both = [e["both"] for e in merged["extras"] if "both" in e]
    if both:
        from mc.env import HarnessError  # noqa: PLC0415

        raise HarnessError(f"ground-truth grammar is ambiguous for header {both[0]}")
    ctx.coverage.update(
        evaluations=merged["evals"],
        distinct_nontrivial=merged["nontrivial"],
        headers_delimited_possible=merged["counters"].get("d_possible", 0),
        headers_nondelimited_possible=merged["counters"].get("n_possible", 0),
        stream_name_lengths=len(lens),
        distinct_real_headers=len({h for e in merged["extras"] for h in e.get("headers", ())}),
        exhaustive=True,
        samples=merged["samples"] + [{"header": "0a0a08", "truth": "D"},
                                     {"header": "0a8a01", "truth": "N"}],
        rule=(
            "all 2^24 three-byte headers classified by a ground-truth grammar of the wire format "
            "(delimited: varint(L) + frame that is empty or starts with a row fitting in L; "
            "non-delimited: 0A varint(R) 0A); non-trivial = headers the grammar classifies; plus "
            "real streams for every stream_name length in both modes, re-cut with an options-only "
            "first frame and with leading empty frames, parsed by both integrations from BytesIO, a "
            "non-seekable raw source, a buffered non-seekable source and seekable buffered files whose "
            "buffer holds only 1-2 bytes of the stream (payload after a consumed preamble, "
            "buffering=2); plus exact first-frame "
            "lengths at the varint boundaries 127/128, 16383/16384..16512 and 2^21"
        ),
    )


def modes_shard(job) -> dict:
    acc = pool.Acc()
    for flow in ("inferred", "ManualFrameFlow", "BoundedFrameFlow", "FlatTriplesFrameFlow",
                 "GraphsFrameFlow"):
        for fs in (1, 2, 3, 7, 250):
            for lt in (0, 1, 3):
                for call in ("options", "stream-only"):
                    case = {"level": "modes", "flow": flow, "frame_size": fs, "logical": lt,
                            "call": call}
                    acc.evals += 1
                    acc.nontrivial += 1
                    for label, msg in run_modes(case):
                        acc.violation({"level": "modes", "variant": label}, f"{msg} case={case}",
                                      case)
    return acc.out()


def _dispatch(job) -> dict:
    if job[0] == "modes":
        return modes_shard(job)
    return sweep_shard(job[1]) if job[0] == "sweep" else concrete_shard(job[1])


def replay(case: dict) -> list:
    if case["level"] == "modes":
        return [m for _, m in run_modes(case)]
    if case["level"] == "header":
        from pyjelly.parse.ioutils import delimited_jelly_hint  # noqa: PLC0415

        h = bytes.fromhex(case["header"])
        t = truth(*h)
        got = delimited_jelly_hint(h)
        return [] if got == (t == "D") else [f"header {h.hex()} truth {t} classified delimited={got}"]
    return [m for _, m in run_concrete(case)]
