"""C04 - every valid Jelly stream decodes to exactly the statements it encodes.

Deviation-bounded exploration of the reference encoder's choice points: for
every scope sequence, physical type, table sizing and namespace list, the
all-defaults stream, every single deviation, every pair (thorough).  Each
stream is confirmed valid by the reference decoder and then parsed by all
pyjelly entry points.
"""
from __future__ import annotations

import io

from mc import alphabets as AL
from mc import drivers as DR
from mc import jrefenc, jspec, jwire, pool
from mc import terms as T
from mc.env import HarnessError
from mc.explore import choice

LEVEL = "model_checking"
SIZES = ((8, 0, 0), (8, 3, 2), (16, 2, 3), (8, 150, 32))
NS = (("ex", "http://a/"), ("", "urn:x"))
PT = {"triple": 1, "quad": 2, "graph": 3}


def build(case: dict, ch):
    cls = case["cls"]
    alpha = AL.alphabet(case["scope"], 3 if cls == "triple" else 4)
    seq = [alpha[i] for i in case["seq"]]
    ns = NS if case["ns"] else ()
    data, delimited, frames = jrefenc.encode(ch, seq, PT[cls], tuple(case["sizes"]), namespaces=ns)
    return ch, seq, ns, data, delimited


def parsers(rdf11: bool):
    out = [("generic", r) for r in ("flat", "grouped", "to_graph")]
    if rdf11:
        out += [("rdflib", r) for r in ("flat", "grouped", "to_graph")]
    return out


def check_stream(case, seq, ns, data, delimited) -> list[tuple[str, str]]:
    """Validate with jspec (harness), then parse with pyjelly (verdict)."""
    expect = T.norm_seq(seq)
    try:
        frames = jwire.read_delimited(data) if delimited else jwire.read_single(data)
        dec, per = jspec.decode_frames(frames)
    except (jspec.SpecViolation, jwire.WireError) as e:
        raise HarnessError(f"reference encoder produced an invalid stream: {e} case={case}") from e
    if [T.norm_st(s) for s in jspec.statements(per)] != expect:
        raise HarnessError(f"reference encoder/decoder disagree on {case}")
    want_ns = [(n, ("I", i)) for n, i in ns]
    ref_ns = jspec.namespaces(per)
    if ref_ns[: len(want_ns)] != want_ns or any(
            x != (want_ns[0][0], ("I", "http://late/ns#")) for x in ref_ns[len(want_ns):]):
        raise HarnessError(f"reference encoder/decoder disagree on namespaces {case}")
    want_ns = ref_ns
    want_events = [("st", T.norm_st(e[1])) if e[0] == "st" else ("ns", e[1], e[2])
                   for e in jspec.flat(per) if e[0] in ("st", "ns")]
    rdf11 = all(T.is_rdf11(s) for s in seq)
    fails = []
    for api, reader in parsers(rdf11):
        try:
            evs = DR.g_read(data, reader) if api == "generic" else DR.r_read(data, reader)
        except Exception as e:  # noqa: BLE001
            fails.append((f"{api}.{reader}", f"valid stream refused by {api} {reader}: "
                                             f"{type(e).__name__}: {e}"))
            continue
        got = DR.stmts_of(evs)
        if api == "rdflib" and reader != "flat":
            ok = set(got) == set(expect)
        else:
            ok = got == expect
        if not ok:
            fails.append((f"{api}.{reader}", f"{api} {reader} returns {got}, the stream denotes "
                                             f"{expect}"))
        if reader == "flat":
            got_ns = [(p, i) for p, i in DR.ns_of(evs)]
            if got_ns != want_ns:
                fails.append((f"{api}.{reader}", f"{api} {reader} returns namespaces {got_ns}, "
                                                 f"the stream declares {want_ns}"))
            elif ok and [tuple(e) for e in evs] != want_events:
                fails.append((f"{api}.{reader}", f"{api} {reader} returns statements and "
                                                 f"declarations in the order {evs}, the stream "
                                                 f"has them in the order {want_events}"))
    # what a graph / sink filled from the stream knows about the declared namespaces
    if want_ns:
        declared = [i[1] for _, i in want_ns]
        try:
            from pyjelly.integrations.generic import parse as gp  # noqa: PLC0415

            sink = gp.parse_jelly_to_graph(io.BytesIO(data))
            have = dict((p, T.from_generic(i)[1]) for p, i in sink.namespaces)
            last = {}
            for p, i in want_ns:
                last[p] = i[1]
            if have != last:
                fails.append(("generic.to_graph", f"sink holds bindings {have}, the stream's "
                                                  f"declarations amount to {last}"))
            if rdf11:
                from pyjelly.integrations.rdflib import parse as rp  # noqa: PLC0415

                g = rp.parse_jelly_to_graph(io.BytesIO(data))
                bound = {str(u) for _, u in g.namespaces()}
                missing = [d for d in declared if d not in bound]
                if missing:
                    fails.append(("rdflib.to_graph", f"graph has no binding for the declared "
                                                     f"namespace(s) {missing}"))
        except Exception as e:  # noqa: BLE001
            fails.append(("to_graph", f"{type(e).__name__}: {e}"))
    return fails


SLOT_SIZES = ((4096, 4), (4096, 4096), (8, 4096), (4095, 3), (128, 127), (4000, 150))


def slots_stream(names: int, prefixes: int):
    """A valid stream that uses the first and the last slots of both tables in every
    combination, with explicit ids (what a producer other than pyjelly may do)."""
    pids = sorted({1, 2, 3 if prefixes >= 3 else 1, prefixes - 1, prefixes})
    nids = sorted({1, 2, names - 1, names})
    opts = {"physical_type": 1, "max_name_table_size": names, "max_prefix_table_size": prefixes,
            "version": 1}
    rows = [jwire.mkrow("options", opts)]
    rows += [jwire.mkrow("prefix", {"id": i, "value": f"http://p{i}/"}) for i in pids]
    rows += [jwire.mkrow("name", {"id": i, "value": f"n{i}"}) for i in nids]
    expect = []
    for k, (p, n) in enumerate((p, n) for p in pids for n in nids):
        rows.append(jwire.mkrow("triple", {"s": ("iri", p, n), "p": ("iri", p, n),
                                           "o": ("literal", str(k), None, None)}))
        iri = ("I", f"http://p{p}/n{n}")
        expect.append((iri, iri, ("L", str(k), None, None)))
    # the same once more in reverse order (every entry is hit a second time)
    for k, (p, n) in enumerate((p, n) for p in reversed(pids) for n in reversed(nids)):
        rows.append(jwire.mkrow("triple", {"s": ("iri", p, n), "p": ("bnode", "b"),
                                           "o": ("iri", p, n)}))
        iri = ("I", f"http://p{p}/n{n}")
        expect.append((iri, ("B", "b"), iri))
    return jwire.write_delimited([jwire.enc_frame(rows)]), expect


def optrow_stream(n: int, delimited: bool, names: int = 16, logical: int = 1, lead: int = 0):
    """A producer's stream whose options row carries a stream name of n bytes: in non-delimited
    form the second byte of the stream is the length of that row, which takes every value."""
    opts = {"stream_name": "s" * n, "physical_type": 1, "logical_type": logical,
            "max_name_table_size": names, "max_prefix_table_size": 4,
            "max_datatype_table_size": 4, "version": 1}
    rows = [jwire.mkrow("options", opts),
            jwire.mkrow("prefix", {"id": 0, "value": "http://p/"}),
            jwire.mkrow("name", {"id": 0, "value": "a"}),
            jwire.mkrow("name", {"id": 0, "value": "b"})]
    a, b = ("I", "http://p/a"), ("I", "http://p/b")
    rows.append(jwire.mkrow("triple", {"s": ("iri", 1, 0), "p": ("iri", 0, 1),
                                       "o": ("iri", 0, 0)}))
    rows.append(jwire.mkrow("triple", {"o": ("literal", "x", None, None)}))
    frame = jwire.enc_frame(rows)
    expect = [(a, a, b), (a, a, ("L", "x", None, None))]
    if lead:
        # the length prefix (two bytes) of the last frame starts at byte offset lead - 1: the
        # rows above travel in a first frame, a filler statement sized to fit in a second one
        first = jwire.write_delimited([jwire.enc_frame(rows[:-1])])
        last = jwire.enc_frame([rows[-1], jwire.mkrow("triple", {"o": ("literal", "y" * 200,
                                                                        None, None)})])
        expect = [expect[0]]
        k = lead - 1 - len(first) - 30
        for _ in range(40):
            filler = jwire.write_delimited([jwire.enc_frame(
                [jwire.mkrow("triple", {"o": ("literal", "f" * max(k, 0), None, None)})])])
            if len(first) + len(filler) == lead - 1:
                break
            k += (lead - 1) - (len(first) + len(filler))
        else:
            raise HarnessError(f"cannot place a frame prefix at offset {lead - 1}")
        expect += [(a, a, ("L", "f" * max(k, 0), None, None)), (a, a, ("L", "x", None, None)),
                   (a, a, ("L", "y" * 200, None, None))]
        return first + filler + jwire.write_delimited([last]), expect
    return (jwire.write_delimited([frame]) if delimited else frame), expect


def run_slots(case: dict) -> list[tuple[str, str]]:
    if "optrow" in case:
        n, delimited, names, *more = case["optrow"]
        data, expect = optrow_stream(n, delimited, names, *more)
        frames = jwire.read_delimited(data) if delimited else jwire.read_single(data)
        _, per = jspec.decode_frames(frames)
        if [T.norm_st(s) for s in jspec.statements(per)] != expect:
            raise HarnessError(f"options-row stream {case} does not denote what it should")
        case = {"slots": f"options row with a {n}-byte name, delimited={delimited}, "
                         f"logical type / prefix offset {more}"}
    else:
        data, expect = slots_stream(*case["slots"])
        _, per = jspec.decode_frames(jwire.read_delimited(data))
    if [T.norm_st(s) for s in jspec.statements(per)] != expect:
        raise HarnessError(f"slots stream {case} does not denote what it should")
    fails = []
    for api, reader in parsers(True):
        try:
            evs = DR.g_read(data, reader) if api == "generic" else DR.r_read(data, reader)
        except Exception as e:  # noqa: BLE001
            fails.append((f"{api}.{reader}", f"valid stream (tables {case['slots']}, first and last "
                                             f"slots in use) refused by {api} {reader}: "
                                             f"{type(e).__name__}: {e}"))
            continue
        got = DR.stmts_of(evs)
        ok = set(got) == set(expect) if (api == "rdflib" and reader != "flat") else got == expect
        if not ok:
            bad = next((i for i, (a, b) in enumerate(zip(got, expect)) if a != b), None)
            fails.append((f"{api}.{reader}", f"tables {case['slots']}: {api} {reader} returns "
                                             f"{got[bad] if bad is not None else len(got)} where "
                                             f"the stream denotes "
                                             f"{expect[bad] if bad is not None else len(expect)}"))
    return fails


def slots_shard(job) -> dict:
    acc = pool.Acc()
    DR.ensure_rdflib_plugin()
    for sz in SLOT_SIZES:
        case = {"slots": list(sz)}
        acc.evals += 1
        acc.nontrivial += 1
        for where, msg in run_slots(case):
            acc.violation({"parser": where, "deviations": "extreme-slots"}, f"{msg}; case={case}",
                          case)
    n_opt = 0
    for names in (16, 4000):
        for n in range(0, 200):
            for delimited in (False, True):
                case = {"optrow": [n, delimited, names]}
                acc.evals += 1
                acc.nontrivial += 1
                n_opt += 1
                for where, msg in run_slots(case):
                    acc.violation({"parser": where, "deviations": "options-row-length"},
                                  f"{msg}; case={case}", case)
    # logical sub-types in the options row (a TRIPLES stream of subject graphs, …)
    for logical in (0, 1, 3, 13):
        for delimited in (False, True):
            case = {"optrow": [3, delimited, 16, logical]}
            acc.evals += 1
            acc.nontrivial += 1
            n_opt += 1
            for where, msg in run_slots(case):
                acc.violation({"parser": where, "deviations": "logical-subtype"},
                              f"{msg}; case={case}", case)
    # a frame whose two-byte length prefix straddles a power-of-two offset of the input
    for lead in (128, 4096, 8192, 16384, 32768, 65536, 131072, 262144):
        case = {"optrow": [3, True, 16, 1, lead]}
        acc.evals += 1
        acc.nontrivial += 1
        n_opt += 1
        for where, msg in run_slots(case):
            acc.violation({"parser": where, "deviations": "prefix-at-block-boundary"},
                          f"{msg[:300]}; case={case}", case)
    acc.extra = {"kinds": {"extreme-slots": len(SLOT_SIZES), "options-row-length": n_opt},
                 "nodes": 0}
    return acc.out()


def shard(job) -> dict:
    if job[0] == "slots":
        return slots_shard(job)
    scope, cls, si, ns, L, lo, hi, bound = job
    acc = pool.Acc()
    sizes = SIZES[si]
    alpha = AL.alphabet(scope, 3 if cls == "triple" else 4)
    kinds: dict = {}
    nodes = 0
    for idx in range(lo, hi):
        sym = AL.seq_at(idx, 6, L)
        seq = [alpha[i] for i in sym]
        if not all(AL.fits(st, sizes) for st in seq):
            acc.counters["out_of_domain"] += 1
            continue
        case = {"scope": scope, "cls": cls, "sizes": list(sizes), "ns": ns, "seq": list(sym)}
        b = bound if len(sym) <= 2 else min(bound, 1)

        def run(ch, case=case):
            try:
                return build(case, ch)
            except ValueError:
                return None  # this deviation is not available (table too small for it)

        def visit(ch, res, case=case):
            if res is None:
                acc.counters["infeasible"] += 1
                return
            ch2, seq2, ns2, data, delimited = res
            acc.evals += 1
            devs = ch2.deviations()
            if devs:
                acc.nontrivial += 1
            for _, lab, _ in devs:
                kinds[lab] = kinds.get(lab, 0) + 1
            for where, msg in check_stream(case, seq2, ns2, data, delimited):
                acc.violation({"parser": where, "deviations": "+".join(sorted(l for _, l, _ in devs))
                               or "none"},
                              f"{msg}; producer deviations {devs}; case={case}",
                              {**case, "choices": ch2.choices()})
            if acc.evals % 997 == 0:
                acc.sample({**case, "choices": ch2.choices(), "deviations": devs,
                            "bytes": len(data)}, cap=2)

        st = choice.explore(run, b, visit)
        nodes += st["points"]
    acc.extra = {"kinds": kinds, "nodes": nodes}
    return acc.out()


def run(ctx) -> None:
    L = 2 if ctx.quick else 3
    bound = 1 if ctx.quick else 2
    jobs = []
    n = AL.n_sequences(6, L)
    for scope in AL.SCOPES:
        for cls in DR.CLASSES:
            for si in range(len(SIZES)):
                if ctx.quick and si == 2:
                    continue
                for ns in (False, True):
                    if ns and si not in ((1,) if ctx.quick else (1, 3)):
                        continue
                    for lo, hi in pool.split_range(n, 1 if ctx.quick else 6):
                        jobs.append((scope, cls, si, ns, L, lo, hi, bound))
    jobs.append(("slots",))
    merged = pool.merge(pool.pmap(shard, jobs))
    ctx.add(merged)
    kinds: dict = {}
    for e in merged["extras"]:
        for k, v in e.get("kinds", {}).items():
            kinds[k] = kinds.get(k, 0) + v
    nodes = sum(e.get("nodes", 0) for e in merged["extras"])
    ctx.coverage.update(
        states=nodes,
        transitions=nodes,
        traces_validated_against_impl=merged["evals"],
        evaluations=merged["evals"],
        distinct_nontrivial=merged["nontrivial"],
        deviation_bound_completed=bound,
        deviation_kinds=kinds,
        out_of_domain=merged["counters"].get("out_of_domain", 0),
        exhaustive=True,
        samples=merged["samples"],
        rule=(
            f"reference encoder (jrefenc) choice tree: every sequence of length<={L} over 6 scopes x "
            "3 physical types x table sizes x namespaces on/off; default execution + every "
            f"execution with <= {bound} deviation(s) (<=1 for length-3 sequences) among: version, "
            "single frame, frame cuts / empty frames / metadata / repeated options row, IRI split "
            "point, slot choice, explicit vs zero entry ids and references, redundant entries, "
            "non-use of repeated terms, graph close/re-open; states = choice points visited; each "
            "stream validated by jspec, then parsed by 3 generic (+3 rdflib if RDF 1.1) parsers; "
            "non-trivial = stream with at least one deviation"
        ),
    )


def replay(case: dict) -> list:
    if "slots" in case or "optrow" in case:
        DR.ensure_rdflib_plugin()
        return [m for _, m in run_slots(case)]
    ch, seq, ns, data, delimited = build(case, choice.Chooser(case["choices"]))
    return [m for _, m in check_stream(case, seq, ns, data, delimited)]
