"""C01 - generic API round trip is lossless and order-preserving."""
from __future__ import annotations

import functools

from mc import alphabets as AL
from mc import drivers as DR
from mc import pool, roundtrip as RT
from mc import terms as T
from mc.explore import bfs as B

LEVEL = "model_checking"


def judge(case, seq, data, exc, acc) -> None:
    sig = {"kind": "roundtrip", "cls": case["cls"], "writer": case["writer"],
           "delimited": case["delimited"]}
    if exc is not None:
        acc.violation({**sig, "fail": "write-raised", "exc": type(exc).__name__},
                      f"in-domain input refused by the serializer: {type(exc).__name__}: {exc} "
                      f"case={case}", case)
        return
    expect = T.norm_seq(seq)
    readers = DR.G_READERS if (case["writer"] != "stream_frames_gen" or len(seq) <= 2
                               or case.get("family") == "scale") else ("flat",)
    for reader in readers:
        try:
            got = DR.stmts_of(DR.g_read(data, reader))
        except Exception as e:  # noqa: BLE001
            acc.violation({**sig, "fail": "read-raised", "reader": reader,
                           "exc": type(e).__name__},
                          f"own output not readable by {reader}: {type(e).__name__}: {e} "
                          f"case={case}", {**case, "reader": reader})
            continue
        acc.counters["reads"] += 1
        if got != expect:
            acc.violation({**sig, "fail": "mismatch", "reader": reader},
                          f"round trip differs ({reader}): wrote {expect} read {got} case={case}",
                          {**case, "reader": reader}, {"expect": expect, "got": got})


def name_shard(job) -> dict:
    """Flat streams whose options row has every length (stream names of lo…hi-1 bytes), in
    both framings: written and read back."""
    from mc.terms import I, L  # noqa: PLC0415

    _, lo, hi = job
    acc = pool.Acc()
    seq = [(I("http://a/s"), I("http://a/p"), L("x")), (I("http://a/s"), I("http://b#q"), L("y"))]
    for n in range(lo, hi):
        for dl in (True, False):
            for preset in ((8, 4, 2), (4000, 150, 32)):
                for flags in (False, True):
                    case = {"family": "names", "cls": "triple", "writer": "stream_frames_gen",
                            "delimited": dl, "preset": list(preset), "name_len": n,
                            "flags": flags}
                    acc.evals += 1
                    acc.nontrivial += 1
                    try:
                        opts = DR.make_options("triple", preset, 250, dl, 1, generalized=flags,
                                               rdf_star=flags, stream_name="n" * n)
                        data = DR.g_write(seq, "triple", opts)
                    except Exception as e:  # noqa: BLE001
                        judge(case, seq, None, e, acc)
                        continue
                    judge(case, seq, data, None, acc)
    return acc.out()


def shard(job) -> dict:
    if job[0] == "bfs":
        return bfs_shard(job)
    if job[0] == "names":
        return name_shard(job)
    return RT.run_job(job, judge)


# -------------------------------------------------------------- joint BFS
class Joint:
    """Real Stream (+encoder) feeding a real Decoder frame by frame."""

    def __init__(self, cls: str, preset, frame_size: int) -> None:
        from pyjelly import jelly  # noqa: PLC0415
        from pyjelly.integrations.generic import parse as gp  # noqa: PLC0415
        from pyjelly.options import LookupPreset, StreamParameters, StreamTypes  # noqa: PLC0415
        from pyjelly.parse.decode import Decoder, ParserOptions  # noqa: PLC0415

        self.cls = cls
        opts = DR.make_options(cls, preset, frame_size, True, ns=True)
        self.stream = DR.g_stream(cls, opts)
        self.stream.enroll()
        popts = ParserOptions(
            stream_types=StreamTypes(physical_type=DR.PT[cls], logical_type=DR.FLAT_LT[cls]),
            lookup_preset=LookupPreset(*preset),
            params=StreamParameters(generalized_statements=True, rdf_star=True,
                                    namespace_declarations=True),
        )
        adapter = {"triple": gp.GenericTriplesAdapter, "quad": gp.GenericQuadsAdapter,
                   "graph": gp.GenericGraphsAdapter}[cls](popts)
        self.dec = Decoder(adapter)
        self.pending: list = []  # statements sent but not yet decoded (still in the flow)

    def send_graph(self, gname, triples) -> list[str]:
        """One GraphStream.graph() call: a (possibly empty) graph given as a whole."""
        fails: list[str] = []
        gg = T.to_generic(gname)
        for t in triples:
            self.pending.append(("st", T.norm_st((*t, gname))))
        for frame in self.stream.graph(gg, [T.st_to_generic(t) for t in triples]):
            # statements decoded so far must be a prefix of what was sent
            got = [T.ev_from_generic(x) for x in self.dec.iter_rows(frame)]
            if got != self.pending[: len(got)]:
                return [f"frame decodes to {got}, statements sent were {self.pending}"]
            self.pending = self.pending[len(got):]
        return fails

    def send(self, st) -> list[str]:
        if st and st[0] == "graph":
            return self.send_graph(st[1], st[2])
        if st and st[0] == "opt":
            self.stream.stream_options()  # the identical options row, sent again
            return []
        if st and st[0] == "ns":
            self.stream.namespace_declaration(st[1], st[2])
            self.pending.append(("ns", st[1], ("I", st[2])))
            return []
        fails: list[str] = []
        g = T.st_to_generic(st)
        frame = self.stream.triple(g) if self.cls == "triple" else self.stream.quad(g)
        self.pending.append(("st", T.norm_st(st)))
        if frame is not None:
            fails += self.deliver(frame)
        return fails

    def flush(self) -> list[str]:
        frame = self.stream.flow.to_stream_frame()
        return self.deliver(frame) if frame is not None else []

    def deliver(self, frame) -> list[str]:
        got = [T.ev_from_generic(x) for x in self.dec.iter_rows(frame)]
        exp, self.pending = self.pending, []
        if got != exp:
            return [f"frame decodes to {got}, statements sent were {exp}"]
        return []


def bfs_step(st: Joint, ev) -> list[str]:
    try:
        if ev == "flush":
            return st.flush()
        return st.send(ev)
    except Exception as e:  # noqa: BLE001
        return [f"{type(e).__name__}: {e}"]


def bfs_canon(st: Joint):
    return (B.dump(st.stream.encoder), B.dump(st.stream.repeated_terms),
            B.dump(list(st.stream.flow)), B.dump(st.dec.names), B.dump(st.dec.prefixes),
            B.dump(st.dec.datatypes), B.dump(st.dec.repeated_terms), tuple(st.pending))


BFS_SCOPES = {
    # name: (scope, cls, preset, frame_size, alphabet indices)
    "prefix3": ("prefix", "triple", (8, 3, 0), 1, (0, 1, 2, 3, 4, 5)),
    "prefix3q": ("prefix", "quad", (8, 3, 0), 2, (0, 1, 3, 5)),
    "datatype2": ("datatype", "triple", (8, 1, 2), 1, (0, 1, 2, 3, 4, 5)),
    "repeat": ("repeat", "quad", (8, 2, 0), 2, (0, 1, 2, 3, 5)),
    "quoted": ("quoted", "triple", (8, 1, 1), 1, (0, 1, 2, 3)),
    "dtpressure": ("dtpressure", "triple", (8, 1, 3), 2, (0, 1, 2, 3, 4, 5)),
    "odd": ("odd", "quad", (8, 1, 1), 3, (0, 1, 2, 3, 4, 5)),
    "names": ("name", "triple", (8, 1, 0), 1, (0, 1, 2, 3)),
    "graphs": ("prefix", "graph", (8, 2, 0), 3, (0, 1)),
}


def graph_events(scope: str, preset, idxs) -> list:
    tr = [t for t in (AL.triples(scope)[i] for i in idxs) if AL.fits(t, preset)]
    names = [T.DEFAULT, T.I("http://a/x"), T.I("http://b#g"), T.I("g")]
    evs = []
    for g in names:
        evs.append(("graph", g, ()))               # an empty graph
        evs.append(("graph", g, (tr[0],)))
        evs.append(("graph", g, (tr[1], tr[0])))
    return evs


def _to_list(x):
    return [_to_list(v) for v in x] if isinstance(x, tuple) else x


def bfs_shard(job) -> dict:
    _, name, cap = job
    extra = name.endswith("+calls")
    name = name.split("+")[0]
    scope, cls, preset, fs, idxs = BFS_SCOPES[name]
    alpha = AL.alphabet(scope, 3 if cls == "triple" else 4)
    if cls == "graph":
        evs = graph_events(scope, preset, idxs)
    else:
        evs = [alpha[i] for i in idxs if AL.fits(alpha[i], preset)]
    if len(evs) < 3:
        from mc.env import HarnessError  # noqa: PLC0415

        raise HarnessError(f"BFS scope {name} has only {len(evs)} in-domain statements")
    evs.append("flush")
    if extra:
        evs = evs[:3] + ["flush"]
        evs.append(("opt",))
        evs.append(("ns", "p", "http://a/x"))  # an IRI the statements use as a whole
        evs.append(("ns", "", "urn:n"))        # no separator: empty prefix
        name += "+calls"
    acc = pool.Acc()
    res = B.bfs(
        init=lambda: Joint(cls, preset, fs),
        events=lambda st: evs,
        step=bfs_step,
        canon=bfs_canon,
        max_states=cap,
        ev_json=lambda e: e if e == "flush" else _to_list(e),
    )
    acc.evals = res.transitions
    acc.extra = {"bfs": name, "scope": scope, "cls": cls, "preset": list(preset),
                 "frame_size": fs, "states": res.states, "transitions": res.transitions,
                 "closed": res.closed, "max_depth": res.max_depth,
                 "depth_complete": res.depth_complete}
    for f in res.failures:
        acc.violation({"kind": "bfs", "bfs": name},
                      f"joint Stream/Decoder search {name}: history {f['path']}: {f['fails']}",
                      {"bfs": name, "path": f["path"]}, f["fails"])
    for p in res.sample_paths[:1]:
        acc.sample({"bfs": name, "history": p})
    return acc.out()


def run(ctx) -> None:
    if ctx.quick:
        jobs = RT.core_jobs(3) + RT.entry_jobs(2) + RT.scale_jobs()
        cap = 2500
    else:
        jobs = RT.core_jobs(4, long_scopes=("prefix", "datatype"), long_len=5, parts=16)
        jobs += RT.entry_jobs(3) + RT.scale_jobs()
        cap = 120000
    expected = RT.expected_cases(jobs) + 160 * 8
    jobs += [("names", lo, lo + 20) for lo in range(0, 160, 20)]
    bjobs = [("bfs", name, cap) for name in BFS_SCOPES]
    # the same joint search with the other public calls of a stream as additional events
    bjobs += [("bfs", name + "+calls", min(cap, 20000)) for name in ("prefix3", "repeat", "graphs")]
    merged = pool.merge(pool.pmap(shard, bjobs + jobs))
    ctx.add(merged)
    searches = [e for e in merged["extras"] if "bfs" in e]
    bfs_tr = sum(s["transitions"] for s in searches)
    evals = merged["evals"] - bfs_tr
    if evals != expected:
        from mc.env import HarnessError  # noqa: PLC0415

        raise HarnessError(f"enumerated {evals} cases, closed form says {expected}")
    ctx.coverage.update(
        states=sum(s["states"] for s in searches),
        transitions=bfs_tr,
        traces_validated_against_impl=bfs_tr + merged["counters"].get("reads", 0),
        evaluations=evals,
        distinct_nontrivial=merged["nontrivial"],
        out_of_domain=merged["counters"].get("out_of_domain", 0),
        round_trip_reads=merged["counters"].get("reads", 0),
        exhaustive=True,
        bfs_searches=sorted(searches, key=lambda s: s["bfs"]),
        samples=merged["samples"],
        scopes={k: {"triples": v["triples"], "presets": v["presets"], "note": v["note"]}
                for k, v in AL.SCOPES.items()},
        rule=(
            "space A: every sequence of length<=L over each 6-statement scope x {Triple,Quad,Graph}"
            "Stream x 4 presets x frame_size{1,2,3,250} x {delimited, non-delimited flat}; space B:"
            " every sequence of length<=LB x every generic write entry point x every read entry "
            "point; count asserted against the closed form; out-of-domain points (a statement "
            "needing more entries than an enabled table holds) are skipped and counted; "
            "non-trivial = sequence with an elision opportunity or a forced eviction. BFS: joint "
            "real Stream+Decoder state, events = statements of a sub-alphabet + flush + the "
            "options row sent again + two namespace declarations."
        ),
    )
    ctx.assumptions += ["terms outside the alphabets behave like the ones inside (DESIGN 11)"]


def replay(case: dict) -> list:
    if "bfs" in case:
        scope, cls, preset, fs, idxs = BFS_SCOPES[case["bfs"].split("+")[0]]
        st = Joint(cls, preset, fs)
        out: list = []
        for ev in case["path"]:
            out = bfs_step(st, "flush" if ev == "flush" else T.from_json(ev))
            if out:
                return out
        return out
    if case.get("family") == "names":
        res = name_shard(("names", case["name_len"], case["name_len"] + 1))
        return [v["what"] for v in res["violations"]
                if all(v["case"].get(k) == case.get(k) for k in ("delimited", "preset", "flags"))]
    return RT.replay_case(case, judge)
