"""C09 - parsing is independent of how the byte source chunks its reads.

Deviation-bounded exploration of the read-size answers of a non-seekable raw
source (default answer: as many bytes as requested), plus all uniform
schedules, the cube of the first three read sizes, the same sources wrapped in
BufferedReader, and seekable buffered sources (BytesIO, file, gzip).
"""
from __future__ import annotations

import gzip
import io
import itertools
import os
import tempfile

from mc import corpus, faultio, pool
from mc.checks.c10 import consume_flat, consume_grouped

LEVEL = "fault_enumeration"
DEV_SIZES = (1, 2, 3)


def parse(entry, api: str, mode: str, src):
    fn = consume_flat if mode == "flat" else consume_grouped
    return fn(api, src)


def reference(entry, api: str, mode: str):
    return parse(entry, api, mode, io.BytesIO(entry["data"]))


def streams_for(size: str) -> list:
    out = list(corpus.base_streams(size))
    # non-delimited variants of the single-frame streams
    from mc import jwire  # noqa: PLC0415

    extra = []
    for e in out:
        raws = jwire.split_delimited(e["data"])
        if len(raws) == 1:
            extra.append({**e, "name": e["name"] + "/nondelim", "data": raws[0]})
    one = single_5m_stream()
    return out + extra + [noise_stream(), huge_frame_stream(), growing_frames_stream(), one,
                          {**one, "name": one["name"] + "/nondelim",
                           "data": jwire.split_delimited(one["data"])[0]}]


def single_5m_stream() -> dict:
    """One frame of 5 MB holding the whole stream; its non-delimited form is one message that a
    reader must take from the source to the end, however large."""
    from mc import drivers as DR  # noqa: PLC0415
    from mc.terms import I, L  # noqa: PLC0415

    seq = [(I("http://h/s"), I("http://h/p"), L("first")),
           (I("http://h/s"), I("http://h/p"), L("w" * 5_000_000)),
           (I("http://h/s"), I("http://h/q"), L("last"))]
    data = DR.g_write(seq, "triple", DR.make_options("triple", (16, 4, 4), 250, True))
    e = corpus._entry("single5m/triple", "triple", data, True)
    e["big"] = True
    e["file_only"] = True
    return e


def growing_frames_stream() -> dict:
    """Several frames above 64 KiB, each later one more than twice the size of all earlier ones
    (and smaller ones in between): reusable buffers must grow to what is asked for."""
    from mc import drivers as DR  # noqa: PLC0415
    from mc.terms import I, L  # noqa: PLC0415

    seq = [(I("http://h/s"), I("http://h/p"), L("y" * n))
           for n in (10, 70_000, 20, 200_000, 66_000, 450_000, 5)]
    data = DR.g_write(seq, "triple", DR.make_options("triple", (16, 4, 4), 1, True))
    e = corpus._entry("growing-frames/triple", "triple", data, True)
    e["big"] = True
    e["file_only"] = True
    return e


def huge_frame_stream() -> dict:
    """One frame above 2 MiB (its length prefix has four bytes)."""
    from mc import drivers as DR  # noqa: PLC0415
    from mc.terms import I, L  # noqa: PLC0415

    seq = [(I("http://h/s"), I("http://h/p"), L("first")),
           (I("http://h/s"), I("http://h/p"), L("z" * 2_500_000)),
           (I("http://h/s"), I("http://h/q"), L("last"))]
    data = DR.g_write(seq, "triple", DR.make_options("triple", (16, 4, 4), 1, True))
    e = corpus._entry("frame2m5/triple", "triple", data, True)
    e["big"] = True
    e["file_only"] = True
    return e


def noise_stream() -> dict:
    """A stream that stays above 64 KiB even when compressed (incompressible literals), for
    the file-backed sources: anything keyed to the size of the underlying file sees a size
    that differs from the size of the data."""
    import hashlib  # noqa: PLC0415

    from mc import drivers as DR  # noqa: PLC0415
    from mc.terms import I, L  # noqa: PLC0415

    seq, h = [], b"seed"
    for i in range(30):
        chunks = []
        for _ in range(125):
            h = hashlib.sha256(h).digest()
            chunks.append(h.hex())
        seq.append((I(f"http://n/s{i}"), I("http://n/p"), L("".join(chunks))))
    data = DR.g_write(seq, "triple", DR.make_options("triple", (16, 4, 4), 8, True))
    e = corpus._entry("noise240k/triple", "triple", data, True)
    e["big"] = True
    e["file_only"] = True
    if len(gzip.compress(data)) < 100_000:
        from mc.env import HarnessError  # noqa: PLC0415

        raise HarnessError("noise stream compresses below 100 kB")
    return e


def make_source(kind: str, data: bytes, schedule, default, tmpdir: str | None = None):
    if kind == "raw":
        return faultio.ScheduleRaw(data, schedule, default)
    if kind == "response":
        return faultio.ScheduleResponse(data, schedule, default)
    if kind == "short-buffered":
        return faultio.ShortBuffered(data, default or 50_000)
    if kind == "buffered":
        return io.BufferedReader(faultio.ScheduleRaw(data, schedule, default), buffer_size=16)
    if kind == "seekable-buffered":
        return io.BufferedReader(faultio.ScheduleRaw(data, schedule, default, seekable=True),
                                 buffer_size=16)
    if kind.startswith("preamble-"):
        # a container file: the Jelly stream starts after a preamble the caller has consumed,
        # so the reader's buffer holds only 16-k bytes of it when the parser starts
        k = int(kind.rsplit("-", 1)[1])
        r = io.BufferedReader(faultio.ScheduleRaw(b"P" * k + data, (), None, seekable=True),
                              buffer_size=16)
        assert r.read(k) == b"P" * k
        return r
    if kind == "tiny-buffer":
        return io.BufferedReader(faultio.ScheduleRaw(data, (), None, seekable=True),
                                 buffer_size=2)
    if kind.startswith("gzip-pipe"):
        # gzip.open(response): a GzipFile (which says it is seekable) over a transport that is
        # not; the first gzip member holds k bytes
        k = int(kind.rsplit("-", 1)[1])
        blob = gzip.compress(data[:k]) + gzip.compress(data[k:]) if k else gzip.compress(data)
        raw = faultio.ScheduleRaw(blob, (), None)
        return gzip.GzipFile(fileobj=raw if "raw" in kind else io.BufferedReader(raw), mode="rb")
    if kind.startswith("gzip-members"):
        k = int(kind.rsplit("-", 1)[1])  # first gzip member holds k bytes
        blob = gzip.compress(data[:k]) + gzip.compress(data[k:])
        return gzip.GzipFile(fileobj=io.BytesIO(blob), mode="rb")
    if kind == "bytesio":
        return io.BytesIO(data)
    if kind == "file":
        assert tmpdir is not None
        p = os.path.join(tmpdir, "s.jelly")
        with open(p, "wb") as f:
            f.write(data)
        return open(p, "rb")  # noqa: SIM115  BufferedReader(FileIO)
    if kind.startswith("socket"):
        # a real socket pair fed by a thread in segments of 1460 bytes (first segment: 2 bytes)
        import socket  # noqa: PLC0415
        import threading  # noqa: PLC0415

        a, b = socket.socketpair()

        def feed():
            try:
                a.sendall(data[:2])
                for i in range(2, len(data), 1460):
                    a.sendall(data[i:i + 1460])
            except OSError:
                pass
            finally:
                a.close()

        threading.Thread(target=feed, daemon=True).start()
        f = b.makefile("rb", buffering=0 if kind == "socket-raw" else -1)
        b.close()  # (the file object keeps the connection open)
        return f
    if kind == "gzip-file":
        assert tmpdir is not None
        p = os.path.join(tmpdir, "s.jelly.gz")
        with gzip.open(p, "wb") as f:
            f.write(data)
        return gzip.open(p, "rb")
    if kind == "file-unbuffered":
        assert tmpdir is not None
        p = os.path.join(tmpdir, "s.jelly")
        with open(p, "wb") as f:
            f.write(data)
        return open(p, "rb", buffering=0)  # noqa: SIM115  FileIO
    if kind == "gzip":
        return gzip.GzipFile(fileobj=io.BytesIO(gzip.compress(data)), mode="rb")
    raise ValueError(kind)


_REF: dict = {}


def run_case(case: dict) -> str | None:
    entries = streams_map(case["corpus"])
    entry = entries[case["stream"]]
    api, mode = case["api"], case["mode"]
    key = (case["corpus"], case["stream"], api, mode)
    if key not in _REF:
        _REF[key] = reference(entry, api, mode)
    want = _REF[key]
    tmp = tempfile.TemporaryDirectory(prefix="c09_") \
        if case["source"] in ("file", "gzip-file", "file-unbuffered") else None
    try:
        src = make_source(case["source"], entry["data"], case.get("schedule", ()),
                          case.get("default"), tmp.name if tmp else None)
        try:
            got = parse(entry, api, mode, src)
        finally:
            if hasattr(src, "close"):
                src.close()
    finally:
        if tmp:
            tmp.cleanup()
    if got != want:
        return (f"parse from {case['source']} source with read sizes "
                f"{case.get('schedule')} (then {case.get('default') or 'full'}) gives "
                f"{_brief(got)}, from BytesIO gives {_brief(want)}")
    return None


def _brief(r) -> str:
    items, exc = r
    return f"{len(items)} items" + (f" then {exc}" if exc else "")


def schedules(entry, api: str, mode: str, max_dev: int):
    """Yield (schedule, default) pairs: uniform, first-three cube, <= max_dev deviations."""
    if entry.get("big"):
        for c in (1, 7, 4096, 8191, 8192, 8193, 16384):
            yield (), c
        for first in (1, 2, 3):
            yield (first,), 8192
        probe = faultio.ScheduleRaw(entry["data"])
        parse(entry, api, mode, probe)
        for i in range(min(len(probe.calls), 40)):
            for s_ in (1, 8191):
                yield (None,) * i + (s_,), None
        return
    for c in range(1, 9):
        yield (), c
    for cube in itertools.product((1, 2, 3, 4), repeat=3):
        yield cube, None
    # number of reads of the all-default execution
    probe = faultio.ScheduleRaw(entry["data"])
    parse(entry, api, mode, probe)
    n = len(probe.calls)
    for i in range(n):
        for s in DEV_SIZES:
            yield (None,) * i + (s,), None
    if max_dev >= 2:
        for i in range(n + 2):
            for j in range(i + 1, n + 4):
                for s1 in DEV_SIZES:
                    for s2 in (1, 2):
                        yield (None,) * i + (s1,) + (None,) * (j - i - 1) + (s2,), None


def shard(job) -> dict:
    size, name, max_dev = job
    entry = streams_map(size)[name]
    acc = pool.Acc()
    for api in ("generic", "rdflib"):
        if api == "rdflib" and not entry["rdf11"]:
            continue
        for mode in ("flat", "grouped"):
            for source in ("bytesio", "file", "gzip-file", "file-unbuffered", "socket-raw",
                           "socket-buffered", "gzip", "gzip-members-1", "gzip-members-2",
                           "gzip-members-3", "gzip-members-7", "tiny-buffer", "preamble-1",
                           "preamble-13", "preamble-14", "preamble-15", "preamble-16",
                           "preamble-17", "preamble-31", "gzip-pipe-0", "gzip-pipe-1",
                           "gzip-pipe-2", "gzip-pipe-3", "gzip-pipe-4", "gzip-pipe-7",
                           "gzip-pipe-raw-1", "gzip-pipe-raw-2", "gzip-pipe-raw-3"):
                case = {"corpus": size, "stream": name, "api": api, "mode": mode,
                        "source": source}
                acc.evals += 1
                r = run_case(case)
                if r:
                    sig = {"source": source, "api": api, "mode": mode}
                    if source.startswith("gzip-pipe"):
                        # (the failing outcome is part of the signature: a known finding names
                        # one outcome for one first-member length, nothing else)
                        sig = {"source": "gzip-pipe", "api": api, "mode": mode,
                               "first_member_bytes": int(source.rsplit("-", 1)[1]),
                               "outcome": "UnsupportedOperation" if "then UnsupportedOperation"
                               in r and "gives 0 items" in r else "other"}
                    acc.violation(sig, f"{name} ({api} {mode}): {r}", case)
            if entry.get("file_only"):
                for source in ("raw", "response", "buffered", "short-buffered"):
                    for default in (None, 65536, 8191, 1000):
                        case = {"corpus": size, "stream": name, "api": api, "mode": mode,
                                "source": source, "schedule": [], "default": default}
                        acc.evals += 1
                        acc.nontrivial += 1
                        r = run_case(case)
                        if r:
                            acc.violation({"source": source, "mode": mode,
                                           "short_first_read": False},
                                          f"{name} ({api} {mode}): {r}", case)
                continue
            for sched, default in schedules(entry, api, mode, max_dev):
                for source in ("raw", "buffered", "seekable-buffered", "response") + (
                        ("short-buffered",) if default else ()):
                    case = {"corpus": size, "stream": name, "api": api, "mode": mode,
                            "source": source, "schedule": list(sched), "default": default}
                    acc.evals += 1
                    if any(s is not None for s in sched) or default:
                        acc.nontrivial += 1
                    r = run_case(case)
                    if r:
                        first3 = tuple(sched[:3]) if sched else (default,) * 3
                        acc.violation(
                            {"source": source, "mode": mode,
                             "short_first_read": bool(first3 and first3[0] in (1, 2))},
                            f"{name} ({api} {mode}): {r}", case)
    acc.sample({"stream": name, "bytes": len(entry["data"])}, cap=1)
    return acc.out()


def run(ctx) -> None:
    size = "small" if ctx.quick else "full"
    max_dev = 1 if ctx.quick else 2
    names = [e["name"] for e in streams_for(size)]
    if not ctx.quick:
        # two deviations are explored on the smaller streams only (cost is quadratic)
        pass
    jobs = [(size, n, max_dev if len(streams_map(size)[n]["data"]) < 260 else 1) for n in names]
    jobs.sort(key=lambda j: -len(streams_map(size)[j[1]]["data"]))
    merged = pool.merge(pool.pmap(shard, jobs))
    ctx.add(merged)
    ctx.coverage.update(
        evaluations=merged["evals"],
        distinct_nontrivial=merged["nontrivial"],
        base_streams=len(names),
        deviation_bound_completed=max_dev,
        exhaustive=True,
        samples=merged["samples"],
        rule=(
            "non-seekable raw source whose readinto answers are choice points (default: full): all "
            "uniform schedules c=1..8, the cube of the first three read sizes {1..4}^3, every "
            f"schedule with <= {max_dev} deviation(s) (read #i returns 1, 2 or 3 bytes), each also "
            "wrapped in BufferedReader(buffer 16) and as a plain io.IOBase 'response' object (neither "
            "raw nor buffered); seekable sources BytesIO / file / unbuffered file "
            "/ gzip over BytesIO / gzip.open on a file (also a 240 kB incompressible stream and a "
            "2.5 MB frame); real sockets (raw SocketIO and buffered makefile) fed in segments; x "
            "{flat, grouped} x {generic, rdflib}; oracle: identical to parsing from BytesIO; "
            "non-trivial = schedule with at least one short read"
        ),
    )


import functools


@functools.cache
def streams_map(size: str) -> dict:
    return {e["name"]: e for e in streams_for(size)}


def replay(case: dict) -> list:
    r = run_case(case)
    return [r] if r else []
