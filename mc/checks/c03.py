"""C03 - every emitted stream is valid Jelly for an independent decoder.

The byte strings of the C01 space (generic), the C02 space (rdflib) and the
namespace space are regenerated here and judged by jwire + jspec alone.
"""
from __future__ import annotations

from mc import drivers as DR
from mc import jspec, jwire, pool, roundtrip as RT
from mc import terms as T

LEVEL = "exploration"


def validate(data: bytes, delimited: bool, expect: list, expect_ns=None, as_set=False):
    """Return None if jspec accepts `data` and it denotes `expect`; else (fail, msg)."""
    try:
        frames = jwire.read_delimited(data) if delimited else jwire.read_single(data)
    except jwire.WireError as e:
        return "wire", f"not parseable as protobuf frames: {e}"
    try:
        dec, per = jspec.decode_frames(frames)
    except jspec.SpecViolation as e:
        return "spec:" + e.rule, str(e)
    got = [T.norm_st(s) for s in jspec.statements(per)]
    if as_set:  # rdflib containers are sets: their iteration order is not pyjelly's
        got, expect = sorted(set(got), key=repr), sorted(set(expect), key=repr)
    if got != expect:
        return "denotes-other", f"reference decoder reads {got}, input was {expect}"
    if expect_ns is not None:
        ns = jspec.namespaces(per)
        if ns != expect_ns:
            return "namespaces", f"reference decoder reads namespaces {ns}, expected {expect_ns}"
    return None


def judge(case, seq, data, exc, acc) -> None:
    sig = {"api": case.get("api", "generic"), "cls": case["cls"], "writer": case["writer"],
           "delimited": case["delimited"]}
    if exc is not None:
        acc.counters["write_raised"] += 1  # C01/C02's business, not a validity question
        return
    acc.counters["streams"] += 1
    acc.extra.setdefault("digests", set()).add(hash(data))
    r = validate(data, case["delimited"], T.norm_seq(seq),
                 as_set=case.get("api") == "rdflib")
    if r is not None:
        acc.violation({**sig, "fail": r[0]},
                      f"emitted stream rejected by the reference decoder: {r[1]} case={case}",
                      case, {"bytes": data.hex()})


def shard(job) -> dict:
    if job[0] == "R":
        from mc import rtrdflib  # noqa: PLC0415

        out = rtrdflib.run_job(job, judge)
    elif job[0] == "N":
        out = ns_job(job)
    elif job[0] == "M":
        return manual_shard(job)
    elif job[0] == "D":
        out = declared_job(job)
    else:
        out = RT.run_job(job, judge, include_out_of_domain=True)
    out["extra"] = {"distinct": len(out["extra"].get("digests", ()))}
    return out


def ns_job(job) -> dict:
    """Streams with namespace declarations (the C14 space), judged by the reference decoder."""
    from mc.checks import c14  # noqa: PLC0415

    _, api, cls, pi, lo, hi = job
    DR.ensure_rdflib_plugin()
    acc = pool.Acc()
    preset = c14.PRESETS[pi]
    blists = c14.binding_lists(2)
    from mc import alphabets as AL  # noqa: PLC0415

    for bl in blists[lo:hi]:
        for seq in c14.stmt_seqs(cls):
            if not all(AL.fits(st, preset) for st in seq):
                continue
            bindings = [c14.BINDINGS[i] for i in bl]
            case = {"api": api, "cls": cls, "preset": list(preset), "bindings": list(bl),
                    "seq": [list(x) for x in seq], "writer": "namespaces", "delimited": True,
                    "family": "N"}
            acc.evals += 1
            acc.counters["ns_cases"] += 1
            try:
                data = c14.write(api, cls, seq, bindings, preset, True)
            except Exception:  # noqa: BLE001
                acc.counters["write_raised"] += 1
                continue
            acc.counters["streams"] += 1
            acc.extra.setdefault("digests", set()).add(hash(data))
            if api == "generic":
                want_ns = [(p, ("I", i)) for p, i in bindings]
            else:
                want_ns = [(p, ("I", str(u))) for p, u in
                           c14.r_source(cls, seq, bindings).namespaces()]
            r = validate(data, True, T.norm_seq(seq), expect_ns=want_ns, as_set=api == "rdflib")
            if r is not None:
                acc.violation({"api": api, "cls": cls, "writer": "namespaces", "fail": r[0]},
                              f"stream with namespace declarations rejected/misread by the "
                              f"reference decoder: {r[1]} case={case}", case,
                              {"bytes": data.hex()})
            # declarations on while the caller asks for protocol version 1 explicitly: whatever
            # the writer makes of it, the stream must be valid (no namespace rows in version 1)
            try:
                v1 = write_v1(api, cls, seq, bindings, preset)
            except Exception:  # noqa: BLE001
                acc.counters["write_raised"] += 1
            else:
                acc.counters["streams"] += 1
                r = validate(v1, True, T.norm_seq(seq), as_set=api == "rdflib")
                if r is not None:
                    c2 = {**case, "req_version": 1}
                    acc.violation({"api": api, "cls": cls, "writer": "namespaces-v1", "fail": r[0]},
                                  f"declarations on, version=1 requested: {r[1]} case={c2}", c2,
                                  {"bytes": v1.hex()})
            # the same containers (bindings and all) written with the option off: version 1,
            # which has no namespace rows
            try:
                off = c14.write(api, cls, seq, bindings, preset, False)
            except Exception:  # noqa: BLE001
                acc.counters["write_raised"] += 1
                continue
            acc.counters["streams"] += 1
            r = validate(off, True, T.norm_seq(seq), expect_ns=[], as_set=api == "rdflib")
            if r is not None:
                c2 = {**case, "ns_off": True}
                acc.violation({"api": api, "cls": cls, "writer": "namespaces-off", "fail": r[0]},
                              f"stream written from a container with bindings, declarations off, "
                              f"rejected/misread by the reference decoder: {r[1]} case={c2}", c2,
                              {"bytes": off.hex()})
    return acc.out()


def write_v1(api: str, cls: str, seq, bindings, preset) -> bytes:
    import io  # noqa: PLC0415

    from mc.checks import c14  # noqa: PLC0415
    from pyjelly.options import StreamParameters  # noqa: PLC0415

    opts = DR.make_options(cls, preset, 2, True, ns=True, generalized=False, rdf_star=False)
    opts.params = StreamParameters(generalized_statements=False, rdf_star=False, version=1,
                                   delimited=True, namespace_declarations=True)
    if api == "generic":
        return DR.g_write(seq, cls, opts, "stream_frames_sink", bindings=bindings)
    g = c14.r_source(cls, seq, bindings)
    out = io.BytesIO()
    g.serialize(destination=out, format="jelly", stream=DR.r_stream(cls, opts), options=opts)
    return out.getvalue()


def declared_job(job) -> dict:
    """Tables declared at and beyond the 4096 limit and really filled beyond it: every id must
    lie within the size the stream's own options row declares."""
    from mc.checks import c05  # noqa: PLC0415

    _, api, rule, n = job
    acc = pool.Acc()
    if rule == "bigframe":
        # n bytes of literal in one frame: the length prefix needs four bytes from 2 MiB on
        from mc.terms import I, L  # noqa: PLC0415

        seq = [(I("http://a/s"), I("http://a/p"), L("first")),
               (I("http://a/s"), I("http://a/p"), L("z" * n)),
               (I("http://a/s"), I("http://a/q"), L("last"))]
        preset = (16, 4, 4)
    elif rule == "nested":
        # one RDF-star statement with n names in nested quoted triples, name table of 8:
        # refused, or (if written) valid and decoding to the statement
        from mc.checks import c18  # noqa: PLC0415

        seq = [c18.nested_statement(n)]
        preset = (8, 0, 0)
    else:
        seq, preset = c05.declared_case(rule, n)
    case = {"family": "D", "api": api, "rule": rule, "n": n, "cls": "triple",
            "writer": "declared-size", "delimited": True}
    acc.evals += 1
    acc.counters["ns_cases"] += 1  # (outside the closed-form count of the C01/C02 spaces)
    try:
        star = rule == "nested"
        opts = DR.make_options("triple", preset, 250, True, generalized=star, rdf_star=star)
        data = (DR.g_write if api == "generic" else DR.r_write)(seq, "triple", opts,
                                                               "stream_frames_gen")
    except Exception:  # noqa: BLE001
        acc.counters["write_raised"] += 1
        return acc.out()
    acc.counters["streams"] += 1
    r = validate(data, True, T.norm_seq(seq))
    if r is not None:
        acc.violation({"api": api, "cls": "triple", "writer": "declared-size", "fail": r[0]},
                      f"{rule} ({n}): {r[1][:300]} "
                      f"case={case}", case)
    return acc.out()


# ------------------------------------------------------------ manual API search
class Manual:
    """A real stream driven call by call through its public methods (enroll, stream_options,
    namespace_declaration, triple/quad/graph, flow.to_stream_frame); every frame it hands out
    is decoded at once by an incremental reference decoder."""

    def __init__(self, api: str, cls: str, preset, frame_size: int) -> None:
        self.api, self.cls = api, cls
        opts = DR.make_options(cls, preset, frame_size, True, ns=True,
                               generalized=api == "generic", rdf_star=api == "generic")
        self.stream = DR.g_stream(cls, opts) if api == "generic" else DR.r_stream(cls, opts)
        self.ref = jspec.Decoder()
        self.pending: list = []  # events handed to the stream, not yet seen in a frame
        self.rejected = False    # a call was rejected: the stream may refuse all further use

    def conv(self, t):
        return T.to_generic(t) if self.api == "generic" else T.to_rdflib(t)

    def deliver(self, frame, complete: bool) -> list[str]:
        import io  # noqa: PLC0415

        from pyjelly.serialize.ioutils import write_delimited  # noqa: PLC0415

        if frame is None:
            return []
        out = io.BytesIO()
        write_delimited(frame, out)
        try:
            (fr,) = jwire.read_delimited(out.getvalue())
            evs = self.ref.frame(fr)
        except (jwire.WireError, jspec.SpecViolation) as e:
            return [f"frame rejected by the reference decoder: {e}"]
        finally:
            self.ref.audit.clear()
        got = [("st", T.norm_st(e[1])) if e[0] == "st" else e for e in evs if e[0] != "opt"]
        if self.rejected:
            # (which of the later calls were accepted is C20's business; here: still valid Jelly)
            self.pending = []
            return []
        want = self.pending if complete else self.pending[: len(got)]
        if got != want:
            return [f"frame decodes to {got}, the calls made were {self.pending}"]
        self.pending = self.pending[len(got):]
        return []

    def step(self, ev) -> list[str]:
        st = self.stream
        k = ev[0]
        if k == "enroll":
            st.enroll()
            return []
        if not st.enrolled:
            return []  # (nothing else is legal before enroll(); the event is a no-op here)
        if k == "opt":
            st.stream_options()
            return []
        if k == "flush":
            return self.deliver(st.flow.to_stream_frame(), True)
        if k == "ns":
            st.namespace_declaration(ev[1], ev[2])
            self.pending.append(("ns", ev[1], ("I", ev[2])))
            return []
        if k == "graph":
            _, g, triples = ev
            self.pending += [("st", T.norm_st((*t, g))) for t in triples]
            fails: list[str] = []
            for frame in st.graph(self.conv(g), [tuple(self.conv(x) for x in t) for t in triples]):
                fails += self.deliver(frame, False)
            return fails
        stmt = ev[1]
        terms = tuple(self.conv(x) for x in stmt)
        self.pending.append(("st", T.norm_st(stmt)))
        frame = st.triple(terms) if self.cls == "triple" else st.quad(terms)
        return self.deliver(frame, True)


def manual_step(m: Manual, ev) -> list[str]:
    if ev[0] == "bad":
        # a statement whose object is not an RDF term at all: must be rejected; the caller
        # catches the error and carries on with the same stream
        if not m.stream.enrolled:
            return []
        s, p = m.conv(ev[1]), m.conv(ev[2])
        try:
            if m.cls == "triple":
                m.stream.triple((s, p, object()))
            elif m.cls == "quad":
                m.stream.quad((s, p, object(), m.conv(ev[3])))
            else:
                for fr in m.stream.graph(m.conv(ev[3]), [(s, p, object())]):
                    m.deliver(fr, False)
        except Exception:  # noqa: BLE001
            m.rejected = True
            if m.cls == "graph":
                m.rejected = "in-graph"  # (the graph start went out, its end did not)
            return []
        return [f"{ev}: a statement with an object that is no RDF term was accepted"]
    try:
        return m.step(ev)
    except Exception as e:  # noqa: BLE001
        if m.rejected:
            return []  # refusing further use after a rejected statement is allowed
        return [f"{ev}: {type(e).__name__}: {e}"]


def manual_canon(m: Manual):
    from mc.explore import bfs as B  # noqa: PLC0415

    r = m.ref
    tabs = tuple((t.size, tuple(sorted(t.slots.items())), t.last_entry) if t else None
                 for t in (r.names, r.prefixes, r.datatypes))
    return (B.dump(m.stream.encoder), B.dump(m.stream.repeated_terms), B.dump(list(m.stream.flow)),
            m.stream.enrolled, getattr(m.stream, "failed", None), tabs, r.last_prefix, r.last_name,
            tuple(sorted(r.prev.items())), r.graph_open, r.graph, r.options is None,
            tuple(m.pending), m.rejected)


MANUAL_SCOPES = {
    # name: (api, cls, preset, frame_size)
    # (every event fits: the statements need at most 3 prefixes and 1 datatype)
    "g-triple": ("generic", "triple", (8, 3, 1), 2),
    "g-quad": ("generic", "quad", (8, 0, 1), 3),
    "g-graph": ("generic", "graph", (8, 3, 1), 2),
    "r-triple": ("rdflib", "triple", (8, 0, 1), 3),
    "r-quad": ("rdflib", "quad", (8, 3, 1), 2),
    "r-graph": ("rdflib", "graph", (8, 4, 1), 3),
}


def manual_events(cls: str) -> list:
    from mc.terms import DEFAULT, I, L  # noqa: PLC0415

    a, b = I("http://a/x"), I("http://b#y")
    tr = [(a, a, L("x")), (a, b, L("x", None, "http://a/x")), (b, I("z"), a)]
    evs: list = [("enroll",), ("opt",), ("flush",), ("ns", "p", "http://c/"), ("ns", "", "http://b#y"),
                 ("ns", "q", "z")]
    # (subject and predicate are new to the stream: they reach the tables before the rejection)
    evs.append(("bad", I("http://c/new-s"), I("http://b#new-p"), b))
    if cls == "triple":
        evs += [("st", t) for t in tr]
    elif cls == "quad":
        evs += [("st", (*t, g)) for t, g in zip(tr, (DEFAULT, b, b))]
    else:
        evs += [("graph", DEFAULT, ()), ("graph", b, (tr[0],)), ("graph", b, (tr[2], tr[0])),
                ("graph", DEFAULT, (tr[1],))]
    return evs


def manual_shard(job) -> dict:
    from mc.explore import bfs as B  # noqa: PLC0415

    _, name, cap = job
    api, cls, preset, fs = MANUAL_SCOPES[name]
    DR.ensure_rdflib_plugin()
    evs = manual_events(cls)
    acc = pool.Acc()
    res = B.bfs(init=lambda: Manual(api, cls, preset, fs), events=lambda st: evs,
                step=manual_step, canon=manual_canon, max_states=cap, ev_json=_to_list)
    acc.counters["manual_transitions"] = res.transitions
    acc.extra = {"manual": name, "api": api, "cls": cls, "preset": list(preset), "frame_size": fs,
                 "states": res.states, "transitions": res.transitions, "closed": res.closed,
                 "max_depth": res.max_depth, "depth_complete": res.depth_complete,
                 "events": len(evs)}
    for f in res.failures:
        acc.violation({"api": api, "cls": cls, "writer": "manual-calls", "fail": "manual"},
                      f"stream driven call by call ({name}): history {f['path']}: {f['fails']}",
                      {"family": "M", "manual": name, "path": f["path"]}, f["fails"])
    for p in res.sample_paths[:1]:
        acc.sample({"manual": name, "history": p})
    return acc.out()


def _to_list(x):
    return [_to_list(v) for v in x] if isinstance(x, tuple) else x


def run(ctx) -> None:
    L = 3 if ctx.quick else 4
    jobs = RT.core_jobs(L, parts=4 if ctx.quick else 16) + RT.entry_jobs(2 if ctx.quick else 3)
    jobs += RT.scale_jobs()
    expected = RT.expected_cases(jobs)
    try:
        from mc import rtrdflib  # noqa: PLC0415

        rjobs = rtrdflib.jobs(3 if ctx.quick else 4)
        expected += rtrdflib.expected_cases(rjobs)
    except ImportError:
        rjobs = []
    from mc.checks import c14  # noqa: PLC0415

    nb = len(c14.binding_lists(2))
    njobs = [("N", api, cls, pi, lo, hi) for api in ("generic", "rdflib") for cls in DR.CLASSES
             for pi in range(len(c14.PRESETS)) for lo, hi in pool.split_range(nb, 2)]
    njobs += [("D", api, rule, n) for api in ("generic", "rdflib")
              for rule in ("name", "prefix", "datatype") for n in (4096, 4097, 5000)]
    njobs += [("D", "generic", "nested", n) for n in range(3, 28)]
    njobs += [("D", api, "bigframe", n) for api in ("generic", "rdflib")
              for n in (2_097_000, 2_500_000, 4_800_000)]
    mjobs = [("M", name, 1200 if ctx.quick else 20000) for name in MANUAL_SCOPES]
    merged = pool.merge(pool.pmap(shard, mjobs + jobs + rjobs + njobs))
    ctx.add(merged)
    searches = sorted((e for e in merged["extras"] if "manual" in e), key=lambda e: e["manual"])
    merged["extras"] = [e for e in merged["extras"] if "manual" not in e]
    if merged["evals"] - merged["counters"].get("ns_cases", 0) != expected:
        from mc.env import HarnessError  # noqa: PLC0415

        raise HarnessError(f"enumerated {merged['evals']} cases, closed form says {expected}")
    ctx.coverage.update(
        evaluations=merged["evals"],
        distinct_nontrivial=sum(e["distinct"] for e in merged["extras"]),
        streams_validated=merged["counters"].get("streams", 0),
        states=sum(e["states"] for e in searches),
        transitions=sum(e["transitions"] for e in searches),
        manual_call_searches=searches,
        out_of_domain=merged["counters"].get("out_of_domain", 0),
        exhaustive=True,
        samples=merged["samples"],
        rule=(
            "all byte strings produced by the C01 space (generic API) and the C02 space (rdflib), "
            "each decoded by the independent jwire+jspec reference decoder in strict mode and "
            "compared with the input; distinct_nontrivial = distinct byte strings validated "
            "(counted per shard); plus breadth-first searches over the public calls of a real "
            "stream (enroll, stream_options, namespace_declaration, triple/quad/graph, flush) in "
            "any order, every frame decoded at once by an incremental reference decoder"
        ),
    )
    ctx.assumptions += ["jwire/jspec transcribe rdf.proto and the Jelly spec correctly "
                        "(cross-checked against rdf_pb2 at setup)"]


def replay(case: dict) -> list:
    if case.get("family") == "M":
        DR.ensure_rdflib_plugin()
        m = Manual(*MANUAL_SCOPES[case["manual"]])
        out: list = []
        for ev in case["path"]:
            out = manual_step(m, T.from_json(ev))
            if out:
                return out
        return out
    if case.get("family") == "D":
        DR.ensure_rdflib_plugin()
        out = declared_job(("D", case["api"], case["rule"], case["n"]))
        return [v["what"] for v in out["violations"]]
    if case.get("family") == "N":
        from mc.checks import c14  # noqa: PLC0415

        DR.ensure_rdflib_plugin()
        api, cls = case["api"], case["cls"]
        bindings = [c14.BINDINGS[i] for i in case["bindings"]]
        seq = [T.from_json(x) for x in case["seq"]]
        if case.get("req_version"):
            v1 = write_v1(api, cls, seq, bindings, tuple(case["preset"]))
            r = validate(v1, True, T.norm_seq(seq), as_set=api == "rdflib")
            return [r[1]] if r else []
        if case.get("ns_off"):
            off = c14.write(api, cls, seq, bindings, tuple(case["preset"]), False)
            r = validate(off, True, T.norm_seq(seq), expect_ns=[], as_set=api == "rdflib")
            return [r[1]] if r else []
        data = c14.write(api, cls, seq, bindings, tuple(case["preset"]), True)
        if api == "generic":
            want_ns = [(p, ("I", i)) for p, i in bindings]
        else:
            want_ns = [(p, ("I", str(u))) for p, u in c14.r_source(cls, seq, bindings).namespaces()]
        r = validate(data, True, T.norm_seq(seq), expect_ns=want_ns, as_set=api == "rdflib")
        return [r[1]] if r else []
    if case.get("api") == "rdflib":
        from mc import rtrdflib  # noqa: PLC0415

        return rtrdflib.replay_case(case, judge)
    return RT.replay_case(case, judge)
