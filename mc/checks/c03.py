"""C03 - every emitted stream is valid Jelly for an independent decoder.

The byte strings of the C01 space (generic), the C02 space (rdflib) and the
namespace space are regenerated here and judged by jwire + jspec alone.
"""
from __future__ import annotations

from mc import drivers as DR
from mc import jspec, jwire, pool, roundtrip as RT
from mc import terms as T

LEVEL = "exploration"


def validate(data: bytes, delimited: bool, expect: list, expect_ns=None, as_set=False):
    """Return None if jspec accepts `data` and it denotes `expect`; else (fail, msg)."""
    try:
        frames = jwire.read_delimited(data) if delimited else jwire.read_single(data)
    except jwire.WireError as e:
        return "wire", f"not parseable as protobuf frames: {e}"
    try:
        dec, per = jspec.decode_frames(frames)
    except jspec.SpecViolation as e:
        return "spec:" + e.rule, str(e)
    got = [T.norm_st(s) for s in jspec.statements(per)]
    if as_set:  # rdflib containers are sets: their iteration order is not pyjelly's
        got, expect = sorted(set(got), key=repr), sorted(set(expect), key=repr)
    if got != expect:
        return "denotes-other", f"reference decoder reads {got}, input was {expect}"
    if expect_ns is not None:
        ns = jspec.namespaces(per)
        if ns != expect_ns:
            return "namespaces", f"reference decoder reads namespaces {ns}, expected {expect_ns}"
    return None


def judge(case, seq, data, exc, acc) -> None:
    sig = {"api": case.get("api", "generic"), "cls": case["cls"], "writer": case["writer"],
           "delimited": case["delimited"]}
    if exc is not None:
        acc.counters["write_raised"] += 1  # C01/C02's business, not a validity question
        return
    acc.counters["streams"] += 1
    acc.extra.setdefault("digests", set()).add(hash(data))
    r = validate(data, case["delimited"], T.norm_seq(seq),
                 as_set=case.get("api") == "rdflib")
    if r is not None:
        acc.violation({**sig, "fail": r[0]},
                      f"emitted stream rejected by the reference decoder: {r[1]} case={case}",
                      case, {"bytes": data.hex()})


def shard(job) -> dict:
    if job[0] == "R":
        from mc import rtrdflib  # noqa: PLC0415

        out = rtrdflib.run_job(job, judge)
    elif job[0] == "N":
        out = ns_job(job)
    else:
        out = RT.run_job(job, judge, include_out_of_domain=True)
    out["extra"] = {"distinct": len(out["extra"].get("digests", ()))}
    return out


def ns_job(job) -> dict:
    """Streams with namespace declarations (the C14 space), judged by the reference decoder."""
    from mc.checks import c14  # noqa: PLC0415

    _, api, cls, pi, lo, hi = job
    DR.ensure_rdflib_plugin()
    acc = pool.Acc()
    preset = c14.PRESETS[pi]
    blists = c14.binding_lists(2)
    from mc import alphabets as AL  # noqa: PLC0415

    for bl in blists[lo:hi]:
        for seq in c14.stmt_seqs(cls):
            if not all(AL.fits(st, preset) for st in seq):
                continue
            bindings = [c14.BINDINGS[i] for i in bl]
            case = {"api": api, "cls": cls, "preset": list(preset), "bindings": list(bl),
                    "seq": [list(x) for x in seq], "writer": "namespaces", "delimited": True,
                    "family": "N"}
            acc.evals += 1
            acc.counters["ns_cases"] += 1
            try:
                data = c14.write(api, cls, seq, bindings, preset, True)
            except Exception:  # noqa: BLE001
                acc.counters["write_raised"] += 1
                continue
            acc.counters["streams"] += 1
            acc.extra.setdefault("digests", set()).add(hash(data))
            if api == "generic":
                want_ns = [(p, ("I", i)) for p, i in bindings]
            else:
                want_ns = [(p, ("I", str(u))) for p, u in
                           c14.r_source(cls, seq, bindings).namespaces()]
            r = validate(data, True, T.norm_seq(seq), expect_ns=want_ns, as_set=api == "rdflib")
            if r is not None:
                acc.violation({"api": api, "cls": cls, "writer": "namespaces", "fail": r[0]},
                              f"stream with namespace declarations rejected/misread by the "
                              f"reference decoder: {r[1]} case={case}", case,
                              {"bytes": data.hex()})
    return acc.out()


def run(ctx) -> None:
    L = 3 if ctx.quick else 4
    jobs = RT.core_jobs(L, parts=4 if ctx.quick else 16) + RT.entry_jobs(2 if ctx.quick else 3)
    jobs += RT.scale_jobs()
    expected = RT.expected_cases(jobs)
    try:
        from mc import rtrdflib  # noqa: PLC0415

        rjobs = rtrdflib.jobs(3 if ctx.quick else 4)
        expected += rtrdflib.expected_cases(rjobs)
    except ImportError:
        rjobs = []
    from mc.checks import c14  # noqa: PLC0415

    nb = len(c14.binding_lists(2))
    njobs = [("N", api, cls, pi, lo, hi) for api in ("generic", "rdflib") for cls in DR.CLASSES
             for pi in range(len(c14.PRESETS)) for lo, hi in pool.split_range(nb, 2)]
    merged = pool.merge(pool.pmap(shard, jobs + rjobs + njobs))
    ctx.add(merged)
    if merged["evals"] - merged["counters"].get("ns_cases", 0) != expected:
        from mc.env import HarnessError  # noqa: PLC0415

        raise HarnessError(f"enumerated {merged['evals']} cases, closed form says {expected}")
    ctx.coverage.update(
        evaluations=merged["evals"],
        distinct_nontrivial=sum(e["distinct"] for e in merged["extras"]),
        streams_validated=merged["counters"].get("streams", 0),
        out_of_domain=merged["counters"].get("out_of_domain", 0),
        exhaustive=True,
        samples=merged["samples"],
        rule=(
            "all byte strings produced by the C01 space (generic API) and the C02 space (rdflib), "
            "each decoded by the independent jwire+jspec reference decoder in strict mode and "
            "compared with the input; distinct_nontrivial = distinct byte strings validated "
            "(counted per shard)"
        ),
    )
    ctx.assumptions += ["jwire/jspec transcribe rdf.proto and the Jelly spec correctly "
                        "(cross-checked against rdf_pb2 at setup)"]


def replay(case: dict) -> list:
    if case.get("family") == "N":
        from mc.checks import c14  # noqa: PLC0415

        DR.ensure_rdflib_plugin()
        api, cls = case["api"], case["cls"]
        bindings = [c14.BINDINGS[i] for i in case["bindings"]]
        seq = [T.from_json(x) for x in case["seq"]]
        data = c14.write(api, cls, seq, bindings, tuple(case["preset"]), True)
        if api == "generic":
            want_ns = [(p, ("I", i)) for p, i in bindings]
        else:
            want_ns = [(p, ("I", str(u))) for p, u in c14.r_source(cls, seq, bindings).namespaces()]
        r = validate(data, True, T.norm_seq(seq), expect_ns=want_ns, as_set=api == "rdflib")
        return [r[1]] if r else []
    if case.get("api") == "rdflib":
        from mc import rtrdflib  # noqa: PLC0415

        return rtrdflib.replay_case(case, judge)
    return RT.replay_case(case, judge)
