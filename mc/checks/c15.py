"""C15 - all parsing entry points and both integrations agree."""
from __future__ import annotations

import io

from mc import alphabets as AL
from mc import drivers as DR
from mc import jrefenc, pool, rtrdflib as RR
from mc import terms as T
from mc.explore import choice

LEVEL = "exploration"
PT = {"triple": 1, "quad": 2, "graph": 3}


def serialize_both(cls: str, seq, preset, fs: int, variant: str = ""):
    """Same neutral input, same explicit options, both integrations -> (generic, rdflib) bytes."""
    out = []
    for api in ("generic", "rdflib"):
        opts = DR.make_options(cls, preset, fs, variant != "non-delimited", generalized=False,
                               rdf_star=False,
                               **({"logical": 0} if variant in ("non-delimited", "bounded-flow")
                                  else {}))
        if variant == "bounded-flow":
            from pyjelly.serialize import flows  # noqa: PLC0415

            opts.flow = flows.BoundedFrameFlow(frame_size=3)
        conv = T.st_to_generic if api == "generic" else T.st_to_rdflib
        stmts = [conv(s) for s in seq]
        if api == "generic":
            from pyjelly.integrations.generic import serialize as ser  # noqa: PLC0415

            stream = DR.g_stream(cls, opts)
        else:
            from pyjelly.integrations.rdflib import serialize as ser  # noqa: PLC0415

            stream = DR.r_stream(cls, opts)
        if cls != "graph":
            frames = list(ser.stream_frames(stream, (s for s in stmts)))
        else:
            stream.enroll()
            frames = []
            i = 0
            while i < len(stmts):  # one graph() call per run of equal graph names
                j = i
                while j < len(stmts) and seq[j][3] == seq[i][3]:
                    j += 1
                frames += list(stream.graph(stmts[i][3], [s[:3] for s in stmts[i:j]]))
                i = j
            last = stream.flow.to_stream_frame()
            if last is not None:
                frames.append(last)
        out.append(DR.frames_to_bytes(frames, variant != "non-delimited"))
    return out


def flat_both(cls: str, seq, preset, fs: int):
    out = []
    for api in ("generic", "rdflib"):
        opts = DR.make_options(cls, preset, fs, True, generalized=False, rdf_star=False)
        write = DR.g_write if api == "generic" else DR.r_write
        out.append(write(seq, cls, opts, "flat_to_frames"))
    return out


def parse_all(data: bytes) -> dict:
    res = {}
    for api in ("generic", "rdflib"):
        read = DR.g_read if api == "generic" else DR.r_read
        for reader in ("flat", "grouped", "to_graph", "to_graph_factory"):
            try:
                res[(api, reader)] = ("ok", DR.stmts_of(read(data, reader)))
            except Exception as e:  # noqa: BLE001
                res[(api, reader)] = ("raised", type(e).__name__)
    return res


def raw_flat(api: str, data: bytes):
    """Flat parse without the xsd:string == plain normalisation: the two integrations must
    report the same datatype for the same bytes, whichever it is."""
    if api == "generic":
        from pyjelly.integrations.generic import parse as gp  # noqa: PLC0415
        from pyjelly.integrations.generic import generic_sink as gs  # noqa: PLC0415

        return [T.st_from_generic(x) for x in gp.parse_jelly_flat(io.BytesIO(data))
                if not isinstance(x, gs.Prefix)]
    from pyjelly.integrations.rdflib import parse as rp  # noqa: PLC0415

    return [T.st_from_rdflib(x) for x in rp.parse_jelly_flat(io.BytesIO(data))
            if not isinstance(x, rp.Prefix)]


def _fold(stmts):
    """rdflib containers are sets under rdflib's own term equality, which ignores the case of
    language tags: compare container contents modulo that."""
    def f(t):
        return ("L", t[1], t[2].lower(), t[3]) if t[0] == "L" and t[2] else t
    return {tuple(f(t) for t in st) for st in stmts}


def agree(res: dict, data: bytes | None = None) -> list[tuple[str, str]]:
    fails = []
    gf = res[("generic", "flat")]
    rf = res[("rdflib", "flat")]
    for reader in ("grouped", "to_graph", "to_graph_factory"):
        g = res[("generic", reader)]
        if g != gf:
            fails.append((f"generic-{reader}", f"generic flat gives {gf} but generic {reader} gives {g}"))
        r = res[("rdflib", reader)]
        same = r[0] == rf[0] and (r[0] != "ok" or _fold(r[1]) == _fold(rf[1]))
        if not same:
            fails.append((f"rdflib-{reader}", f"rdflib flat gives {rf} but rdflib {reader} gives {r}"))
    if (gf[0] == "ok") != (rf[0] == "ok") or (gf[0] == "ok" and gf[1] != rf[1]):
        fails.append(("cross-integration", f"generic flat gives {gf}, rdflib flat gives {rf}"))
    elif gf[0] == "ok" and data is not None:
        def lits(stmts):
            # (lexical form, language, datatype as reported; rdflib reports no datatype string
            #  for a language-tagged literal, the generic one reports None as well)
            return [[t for t in st if t[0] == "L"] for st in stmts]
        try:
            gr, rr = lits(raw_flat("generic", data)), lits(raw_flat("rdflib", data))
        except Exception:  # noqa: BLE001
            return fails
        if gr != rr:
            bad = next(i for i, (a, b) in enumerate(zip(gr, rr)) if a != b)
            fails.append(("cross-integration-datatype",
                          f"statement {bad}: generic reports literals {gr[bad]}, rdflib reports "
                          f"{rr[bad]} for the same bytes"))
    return fails


def run_case(case: dict) -> list[tuple[str, str]]:
    cls = case["cls"]
    alpha = RR.alphabet(case["scope"], cls)
    seq = [alpha[i] for i in case["seq"]]
    fails = []
    if case["kind"] == "parse":
        # bytes written by the generic serializer, parsed by both integrations
        data = DR.g_write(seq, cls, DR.make_options(cls, tuple(case["preset"]), case["frame_size"],
                                                    True, generalized=False, rdf_star=False))
        return agree(parse_all(data), data)
    if case["kind"] == "pyjelly":
        preset = tuple(case["preset"])
        try:
            gb, rb = serialize_both(cls, seq, preset, case["frame_size"])
        except Exception as e:  # noqa: BLE001
            return [("serialize-raised", f"{type(e).__name__}: {e}")]
        if gb != rb:
            fails.append(("serializers-differ", f"generic wrote {len(gb)} bytes {gb.hex()}, "
                                                f"rdflib wrote {len(rb)} bytes {rb.hex()}"))
        if cls != "graph":
            # the flat entry points (which build their streams themselves) must agree as well
            try:
                fg, fr = flat_both(cls, seq, preset, case["frame_size"])
                if fg != fr or fg != gb:
                    fails.append(("flat-entry-differs",
                                  f"flat_stream_to_frames: generic {len(fg)} bytes, rdflib "
                                  f"{len(fr)} bytes, stream_frames {len(gb)} bytes"))
            except Exception as e:  # noqa: BLE001
                fails.append(("flat-entry-raised", f"{type(e).__name__}: {e}"))
            # the same statements as plain tuples of terms (what rdflib's own iterators yield)
            opts = DR.make_options(cls, preset, case["frame_size"], True, generalized=False,
                                   rdf_star=False)
            try:
                rt = DR.r_write(seq, cls, opts, "flat_to_frames_tuples")
                if rt != rb:
                    fails.append(("flat-entry-differs",
                                  f"rdflib flat_stream_to_frames fed plain tuples wrote {len(rt)} "
                                  f"bytes, fed Triple/Quad objects {len(rb)} bytes"))
            except Exception as e:  # noqa: BLE001
                fails.append(("flat-entry-raised", f"rdflib, plain tuples: {type(e).__name__}: {e}"))
        else:
            # an explicit GraphStream fed the quads themselves (the library groups them)
            from pyjelly.integrations.generic import serialize as gser  # noqa: PLC0415

            opts = DR.make_options(cls, preset, case["frame_size"], True, generalized=False,
                                   rdf_star=False)
            try:
                g3 = DR.frames_to_bytes(gser.stream_frames(
                    DR.g_stream(cls, opts), (T.st_to_generic(s) for s in seq)), True)
                if g3 != gb:
                    fails.append(("serializers-differ",
                                  f"generic GraphStream fed quads one by one wrote {len(g3)} bytes; "
                                  f"one graph() call per run of equal graph names (and rdflib) "
                                  f"{len(gb)} bytes"))
            except Exception as e:  # noqa: BLE001
                fails.append(("serialize-raised", f"generic GraphStream fed quads: "
                                                  f"{type(e).__name__}: {e}"))
        fails += agree(parse_all(gb))
        if gb != rb:
            fails += agree(parse_all(rb))
        if case["frame_size"] == 250 and cls != "graph":
            # other legal ways of configuring the stream: no logical type stated, with
            # non-delimited output or with an explicit bounded flow object
            for variant in ("non-delimited", "bounded-flow"):
                try:
                    g2, r2 = serialize_both(cls, seq, preset, 250, variant)
                except Exception as e:  # noqa: BLE001
                    fails.append(("serialize-raised", f"{variant}: {type(e).__name__}: {e}"))
                    continue
                if g2 != r2:
                    fails.append(("serializers-differ",
                                  f"{variant}: generic wrote {len(g2)} bytes, rdflib wrote "
                                  f"{len(r2)} bytes"))
        if case["frame_size"] == 250 and cls != "graph":
            # a container written whole, options with a small frame size and no logical type:
            # both integrations cut the same number of frames
            from mc import jwire  # noqa: PLC0415

            try:
                counts = []
                for api in ("generic", "rdflib"):
                    o = DR.make_options(cls, preset, 2, True, 0, generalized=False, rdf_star=False)
                    d = (DR.g_write(seq, cls, o, "stream_frames_sink") if api == "generic"
                         else DR.r_write(seq, cls, o, "graph_serialize_options"))
                    counts.append(len(jwire.split_delimited(d)))
                if counts[0] != counts[1]:
                    fails.append(("serializers-differ",
                                  f"container written whole, frame_size 2, logical type left "
                                  f"unspecified: generic cuts {counts[0]} frame(s), rdflib "
                                  f"Graph.serialize {counts[1]}"))
            except Exception as e:  # noqa: BLE001
                fails.append(("serialize-raised", f"container, unspecified logical type: "
                                                  f"{type(e).__name__}: {e}"))
        if case["frame_size"] == 250 and len(seq) >= 2:
            # the same rows with a frame per row (frames that hold lookup entries only, or only
            # the start / end of a graph)
            from mc import jwire  # noqa: PLC0415

            rows = [r for f in jwire.read_delimited(gb) for r in f["rows"]]
            recut = jwire.write_delimited([jwire.enc_frame([r]) for r in rows])
            res = parse_all(recut)
            res[("generic", "grouped")] = res[("generic", "flat")]  # (sinks per frame differ
            res[("rdflib", "grouped")] = res[("rdflib", "flat")]    #  by design; C07's business)
            fails += [(k + "-recut", m) for k, m in agree(res, recut)]
        return fails
    ch = choice.Chooser(case["choices"])
    data, delimited, _ = jrefenc.encode(ch, seq, PT[cls], tuple(case["preset"]))
    return agree(parse_all(data), data)


def run_nsgroup(case: dict) -> list[tuple[str, str]]:
    """Several graphs with namespace bindings through one grouped stream, declarations on:
    the generic sinks are built from the rdflib graphs (same statements in the same order,
    same bindings in the same order), so the two outputs must be byte-identical."""
    import rdflib  # noqa: PLC0415

    from mc.checks import c14  # noqa: PLC0415
    from pyjelly.integrations.generic import generic_sink as gs  # noqa: PLC0415
    from pyjelly.integrations.generic import serialize as gser  # noqa: PLC0415
    from pyjelly.integrations.rdflib import serialize as rser  # noqa: PLC0415

    cls = case["cls"]
    alpha = RR.alphabet("r_prefix", cls)
    graphs, sinks = [], []
    for part, bl in zip(case["parts"], case["bindings"]):
        g = c14.r_source(cls, [alpha[i] for i in part], [c14.BINDINGS[i] for i in bl])
        sink = gs.GenericStatementSink()
        for pfx, ns in g.namespaces():
            sink.bind(pfx, gs.IRI(str(ns)))
        if cls == "triple":
            for tr in g:
                sink.add(T.st_to_generic(tuple(T.from_rdflib(t) for t in tr)))
        else:
            for s, p, o, c in g.quads():
                sink.add(T.st_to_generic((T.from_rdflib(s), T.from_rdflib(p), T.from_rdflib(o),
                                          T.from_rdflib(c, graph_pos=True))))
        graphs.append(g)
        sinks.append(sink)
    outs = []
    for ser, items in ((gser, sinks), (rser, graphs)):
        opts = DR.make_options(cls, tuple(case["preset"]), case["frame_size"], True,
                               None if case.get("flat") else RR.GROUPED_LT[cls],
                               generalized=False, rdf_star=False, ns=case.get("ns", True))
        out = io.BytesIO()
        try:
            ser.grouped_stream_to_file((x for x in items), out, options=opts)
        except Exception as e:  # noqa: BLE001
            return [("serialize-raised", f"{ser.__name__}: {type(e).__name__}: {e}")]
        outs.append(out.getvalue())
    if outs[0] != outs[1]:
        from mc import jwire  # noqa: PLC0415

        def shape(b):
            return [[r["kind"] for r in f["rows"]].count("namespace") for f in jwire.read_delimited(b)]
        return [("serializers-differ",
                 f"grouped stream of {len(graphs)} graphs (declarations "
                 f"{'on' if case.get('ns', True) else 'off'}): generic wrote "
                 f"{len(outs[0])} bytes (declarations per frame {shape(outs[0])}), rdflib wrote "
                 f"{len(outs[1])} bytes (declarations per frame {shape(outs[1])})")]
    return []


def nsgroup_shard(job) -> dict:
    _, cls, pi = job
    DR.ensure_rdflib_plugin()
    acc = pool.Acc()
    preset = RR.R_SCOPES["r_prefix"]["presets"][pi]
    parts_list = [([0], [1]), ([0, 1], [2]), ([3], [3, 4]), ([0], [1], [2]), ([5], [], [0]),
                  ([], [0, 1]), ([], [], [2]), ([0], []), ([1], [], [])]
    bind_lists = [(), (0,), (0, 3), (3, 0), (7,)]
    for parts in parts_list:
        for b1 in bind_lists:
            for b2 in bind_lists:
                bl = [b1, b2, b1][: len(parts)]
                for fs, ns, flat in ((1, True, False), (250, True, False), (250, False, False),
                                     (2, True, True), (16, True, True)):
                    if not ns and (b1 or b2):
                        continue  # (without declarations the bindings play no part)
                    if flat and not parts[0]:
                        continue  # (the generic entry point guesses the stream class from the
                        #            first container and refuses an empty one for FLAT_TRIPLES)
                    case = {"kind": "nsgroup", "cls": cls, "preset": list(preset), "frame_size": fs,
                            "parts": [list(p) for p in parts], "bindings": [list(b) for b in bl],
                            "ns": ns, "flat": flat}
                    alpha = RR.alphabet("r_prefix", cls)
                    if not all(AL.fits(alpha[i], preset) for p in parts for i in p):
                        acc.counters["out_of_domain"] += 1
                        continue
                    acc.evals += 1
                    acc.nontrivial += 1
                    for k, msg in run_nsgroup(case):
                        acc.violation({"kind": "nsgroup", "fail": k}, f"{msg} case={case}", case)
    acc.sample({"kind": "nsgroup", "cls": cls, "preset": preset}, cap=1)
    return acc.out()


def run_strict(case: dict) -> list[tuple[str, str]]:
    """The same header through the strict (logical_type_strict=True) parsers of both
    integrations: accepted by both with the same statements, or refused by both."""
    from mc.checks import c13  # noqa: PLC0415

    data = c13.handmade(case["physical"], case["logical"], delimited=case["delimited"])
    fails = []
    for reader in ("flat", "grouped"):
        for strict in (True, False):
            g = c13.parse_with("generic", reader, data, strict)
            r = c13.parse_with("rdflib", reader, data, strict)
            if g[0] != r[0] or (g[0] == "ok" and g[1] != r[1]):
                fails.append(("strict-disagree",
                              f"physical {case['physical']} logical {case['logical']}, {reader} parser "
                              f"with logical_type_strict={strict}: generic gives {g}, rdflib gives {r}"))
    return fails


def strict_shard(job) -> dict:
    from mc.checks import c13  # noqa: PLC0415

    DR.ensure_rdflib_plugin()
    acc = pool.Acc()
    for pt in (1, 2, 3):
        for lt in c13.LOGICAL:
            if not c13.pair_allowed(pt, lt):
                continue
            for dl in (True, False):
                case = {"kind": "strict", "physical": pt, "logical": lt, "delimited": dl}
                acc.evals += 1
                acc.nontrivial += 1
                for k, msg in run_strict(case):
                    acc.violation({"kind": "strict", "fail": k}, f"{msg} case={case}", case)
    return acc.out()


def bulk_seq(n: int, cls: str) -> list:
    """n distinct RDF 1.1 statements (beyond any internal batch size such as 1000)."""
    from mc.terms import DEFAULT, I, L  # noqa: PLC0415

    out = []
    for i in range(n):
        st = (I(f"http://b{i % 7}.example/s{i}"), I(f"http://b{i % 3}.example/p"), L(str(i)))
        if cls != "triple":
            st = (*st, DEFAULT if i % 5 == 0 else I(f"http://g.example/g{(i // 11) % 4}"))
        out.append(st)
    return out


def bulk_shard(job) -> dict:
    _, n, cls = job
    DR.ensure_rdflib_plugin()
    acc = pool.Acc()
    seq = bulk_seq(n, cls)
    case = {"kind": "bulk", "n": n, "cls": cls}
    acc.evals += 1
    acc.nontrivial += 1
    for k, msg in run_bulk(case):
        acc.violation({"kind": "bulk", "fail": k}, f"{msg[:500]} case={case}", case)
    acc.sample(case, cap=1)
    return acc.out()


def run_bulk(case: dict) -> list:
    seq = bulk_seq(case["n"], case["cls"])
    gb, rb = serialize_both(case["cls"], seq, (4000, 150, 32), 250)
    fails = []
    if gb != rb:
        fails.append(("serializers-differ", f"{len(gb)} vs {len(rb)} bytes for {len(seq)} statements"))
    res = parse_all(gb)
    brief = {k: (v[0], len(v[1]) if v[0] == "ok" else v[1]) for k, v in res.items()}
    for k, msg in agree(res):
        fails.append((k, f"{len(seq)} statements: entry points disagree: {brief}"))
        break
    return fails


def shard(job) -> dict:
    if job[0] == "bulk":
        return bulk_shard(job)
    if job[0] == "nsgroup":
        return nsgroup_shard(job)
    if job[0] == "strict":
        return strict_shard(job)
    kind, scope, cls, pi, L, lo, hi = job
    DR.ensure_rdflib_plugin()
    acc = pool.Acc()
    alpha = RR.alphabet(scope, cls)
    preset = RR.R_SCOPES[scope]["presets"][pi]
    for idx in range(lo, hi):
        sym = AL.seq_at(idx, 6, L)
        seq = [alpha[i] for i in sym]
        if not all(AL.fits(st, preset) for st in seq):
            acc.counters["out_of_domain"] += 1
            continue
        if kind in ("pyjelly", "parse"):
            for fs in (1, 250):
                case = {"kind": kind, "scope": scope, "cls": cls, "preset": list(preset),
                        "frame_size": fs, "seq": list(sym)}
                acc.evals += 1
                if len(sym) >= 2:
                    acc.nontrivial += 1
                for k, msg in run_case(case):
                    acc.violation({"kind": kind, "fail": k}, f"{msg[:600]} case={case}", case)
        else:
            base = {"kind": kind, "scope": scope, "cls": cls, "preset": list(preset),
                    "seq": list(sym)}

            def run(ch, base=base, seq=seq):
                try:
                    return jrefenc.encode(ch, seq, PT[cls], preset)
                except ValueError:
                    return None

            def visit(ch, res, base=base):
                if res is None:
                    return
                acc.evals += 1
                if ch.deviations():
                    acc.nontrivial += 1
                for k, msg in agree(parse_all(res[0]), res[0]):
                    acc.violation({"kind": kind, "fail": k}, f"{msg[:600]} case={base}",
                                  {**base, "choices": ch.choices()})

            choice.explore(run, 1, visit)
    acc.sample({"kind": kind, "scope": scope, "cls": cls, "preset": preset}, cap=1)
    return acc.out()


def run(ctx) -> None:
    DR.ensure_rdflib_plugin()
    RR.assert_fixpoints()
    L = 3 if ctx.quick else 4
    jobs = []
    n = AL.n_sequences(6, L)
    for scope, sc in RR.R_SCOPES.items():
        for cls in DR.CLASSES:
            for pi in range(4):
                if sc.get("restricted") and pi:
                    continue
                for lo, hi in pool.split_range(n, 1 if ctx.quick else 8):
                    jobs.append(("parse" if sc.get("parse_only") else "pyjelly", scope, cls, pi, L,
                                 lo, hi))
            LR = 1 if ctx.quick else 2
            for pi in (1, 3):
                jobs.append(("refenc", scope, cls, pi, LR, 0, AL.n_sequences(6, LR)))
    for n in ((1001, 2100) if ctx.quick else (1000, 1001, 2002, 2100, 5003)):
        for cls in DR.CLASSES:
            jobs.append(("bulk", n, cls))
    for cls in ("triple", "quad"):
        for pi in range(4):
            jobs.append(("nsgroup", cls, pi))
    jobs.append(("strict",))
    merged = pool.merge(pool.pmap(shard, jobs))
    ctx.add(merged)
    ctx.coverage.update(
        evaluations=merged["evals"],
        distinct_nontrivial=merged["nontrivial"],
        out_of_domain=merged["counters"].get("out_of_domain", 0),
        exhaustive=True,
        samples=merged["samples"],
        rule=(
            f"every sequence of length<={L} over 5 RDF 1.1 scopes x 3 physical types x 4 presets x "
            "frame_size{1,250}: serialised through both integrations with identical explicit "
            "options (byte-identical?), every byte string through flat / grouped / parse-to-graph "
            "of both integrations (agreement within and across integrations); plus reference-"
            "encoder streams with <=1 deviation through the same six parsers; bulk streams of "
            "1001..5003 distinct statements (beyond internal batch sizes); grouped streams of 2-3 "
            "graphs/datasets with namespace bindings and declarations on, written by both "
            "integrations from corresponding containers (byte-identical?); non-trivial = "
            "at least two statements / at least one deviation"
        ),
    )


def replay(case: dict) -> list:
    DR.ensure_rdflib_plugin()
    if case["kind"] == "bulk":
        return [m for _, m in run_bulk(case)]
    if case["kind"] == "nsgroup":
        return [m for _, m in run_nsgroup(case)]
    if case["kind"] == "strict":
        return [m for _, m in run_strict(case)]
    return [m for _, m in run_case(case)]
