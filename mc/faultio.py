"""I/O doubles that follow the `io` contracts but let the harness own chunking.

ScheduleRaw      non-seekable RawIOBase; the size of every read answer comes
                 from a schedule (list) and then a default; records the calls.
StallRaw         non-seekable RawIOBase that delivers data[:limit] normally and
                 raises Stalled if asked for one more byte (a connection on which
                 nothing more will ever arrive, without blocking the harness).
"""
from __future__ import annotations

import io


class Stalled(Exception):
    """The parser asked for bytes that have not arrived (it would block forever)."""


class ScheduleRaw(io.RawIOBase):
    def __init__(self, data: bytes, schedule=(), default: int | None = None,
                 seekable: bool = False) -> None:
        super().__init__()
        self.data = data
        self.pos = 0
        self.schedule = list(schedule)
        self.default = default  # None = as many bytes as requested
        self.calls: list[tuple[int, int]] = []  # (requested, returned)
        self._seekable = seekable

    def readable(self) -> bool:
        return True

    def seekable(self) -> bool:
        return self._seekable

    def seek(self, off: int, whence: int = 0) -> int:
        if not self._seekable:
            raise io.UnsupportedOperation("seek")
        if whence == 0:
            self.pos = off
        elif whence == 1:
            self.pos += off
        else:
            self.pos = len(self.data) + off
        return self.pos

    def tell(self) -> int:
        return self.pos

    def readinto(self, b) -> int:
        want = len(b)
        if want == 0:
            return 0
        i = len(self.calls)
        cap = self.schedule[i] if i < len(self.schedule) else self.default
        n = want if cap is None else min(want, max(1, cap))
        chunk = self.data[self.pos : self.pos + n]
        b[: len(chunk)] = chunk
        self.pos += len(chunk)
        self.calls.append((want, len(chunk)))
        return len(chunk)


class StallRaw(io.RawIOBase):
    def __init__(self, data: bytes, limit: int, chunk: int | None = None,
                 seekable: bool = False) -> None:
        super().__init__()
        self.data = data
        self.limit = limit
        self.pos = 0
        self.chunk = chunk
        self._seekable = seekable
        self.stalled = False

    def readable(self) -> bool:
        return True

    def seekable(self) -> bool:
        return self._seekable

    def seek(self, off: int, whence: int = 0) -> int:
        if not self._seekable:
            raise io.UnsupportedOperation("seek")
        if whence == 0:
            self.pos = off
        elif whence == 1:
            self.pos += off
        else:
            self.pos = len(self.data) + off
        return self.pos

    def tell(self) -> int:
        return self.pos

    def readinto(self, b) -> int:
        want = len(b)
        if want == 0:
            return 0
        avail = self.limit - self.pos
        if avail <= 0:
            self.stalled = True
            raise Stalled(f"read of {want} bytes at offset {self.pos}: nothing more has arrived")
        n = min(want, avail, self.chunk or want)
        b[:n] = self.data[self.pos : self.pos + n]
        self.pos += n
        return n


class CutRaw(ScheduleRaw):
    """Non-seekable source that simply ends (EOF) at `cut`."""

    def __init__(self, data: bytes, cut: int, default: int | None = None) -> None:
        super().__init__(data[:cut], (), default)


class NullRawWriter(io.RawIOBase):
    """Write side of a BufferedRWPair (the shape of socket.makefile('rwb'))."""

    def writable(self) -> bool:
        return True

    def write(self, b) -> int:
        return len(b)


class PlainBuffered(io.BufferedIOBase):
    """A minimal custom BufferedIOBase (not a BufferedReader), e.g. an HTTP body wrapper:
    read(n) blocks until n bytes or EOF, like every BufferedIOBase."""

    def __init__(self, raw) -> None:
        self.raw_src = raw

    def readable(self) -> bool:
        return True

    def seekable(self) -> bool:
        return False

    def read(self, size=-1):
        out = bytearray()
        while size is None or size < 0 or len(out) < size:
            want = 8192 if (size is None or size < 0) else size - len(out)
            buf = bytearray(want)
            n = self.raw_src.readinto(buf)
            if not n:
                break
            out += buf[:n]
        return bytes(out)

    def read1(self, size=-1):
        buf = bytearray(size if size and size > 0 else 8192)
        n = self.raw_src.readinto(buf)
        return bytes(buf[: n or 0])

    def readinto(self, b) -> int:
        data = self.read(len(b))
        b[: len(data)] = data
        return len(data)


class ResetRaw(io.RawIOBase):
    """Non-seekable connection that delivers `data` (in segments of `chunk` bytes) and then
    fails with ConnectionResetError instead of reporting end-of-file."""

    def __init__(self, data: bytes, chunk: int | None = None) -> None:
        super().__init__()
        self.data = data
        self.pos = 0
        self.chunk = chunk

    def readable(self) -> bool:
        return True

    def seekable(self) -> bool:
        return False

    def readinto(self, b) -> int:
        want = len(b)
        if want == 0:
            return 0
        if self.pos >= len(self.data):
            raise ConnectionResetError("connection reset by peer")
        n = want if self.chunk is None else min(want, self.chunk)
        part = self.data[self.pos : self.pos + n]
        b[: len(part)] = part
        self.pos += len(part)
        return len(part)


class ScheduleResponse(io.IOBase):
    """Non-seekable file-like object that is neither RawIOBase nor BufferedIOBase (the shape of
    HTTP client response objects): read(n) / readinto(b) hand out what the current network
    segment holds, sized by the same kind of schedule as ScheduleRaw."""

    def __init__(self, data: bytes, schedule=(), default: int | None = None) -> None:
        super().__init__()
        self.data = data
        self.pos = 0
        self.schedule = list(schedule)
        self.default = default
        self.ncalls = 0

    def readable(self) -> bool:
        return True

    def seekable(self) -> bool:
        return False

    def _take(self, want: int) -> bytes:
        i = self.ncalls
        self.ncalls += 1
        cap = self.schedule[i] if i < len(self.schedule) else self.default
        n = want if cap is None else min(want, max(1, cap))
        out = self.data[self.pos : self.pos + n]
        self.pos += len(out)
        return out

    def read(self, size: int | None = -1) -> bytes:
        if size is None or size < 0:
            out = self.data[self.pos :]
            self.pos = len(self.data)
            return out
        return self._take(size) if size else b""

    def readinto(self, b) -> int:
        out = self._take(len(b))
        b[: len(out)] = out
        return len(out)


class ShortBuffered(io.BufferedIOBase):
    """A non-seekable BufferedIOBase over an interactive raw stream: read(n) issues at most one
    raw read, so it may return fewer than n bytes long before the end (the io contract allows
    exactly that)."""

    def __init__(self, data: bytes, cap: int) -> None:
        self.data, self.pos, self.cap = data, 0, cap

    def readable(self) -> bool:
        return True

    def seekable(self) -> bool:
        return False

    def read(self, size=-1):
        if size is None or size < 0:
            out, self.pos = self.data[self.pos:], len(self.data)
            return out
        n = min(size, self.cap)
        out = self.data[self.pos:self.pos + n]
        self.pos += len(out)
        return out

    read1 = read
