"""Drivers for pyjelly's public entry points (generic and rdflib integrations).

Everything here calls the real code in /repo.  Inputs and outputs are neutral
terms (mc.terms); bytes are returned for the reference decoder.
"""
from __future__ import annotations

import io

from mc import terms as T

CLASSES = ("triple", "quad", "graph")
PT = {"triple": 1, "quad": 2, "graph": 3}
FLAT_LT = {"triple": 1, "quad": 2, "graph": 2}


class Rejected(Exception):
    """The serializer configuration / input was refused with an exception."""

    def __init__(self, exc: BaseException) -> None:
        super().__init__(f"{type(exc).__name__}: {exc}")
        self.exc = exc


def _mods():
    from pyjelly import jelly, options  # noqa: PLC0415
    from pyjelly.serialize import flows, ioutils, streams  # noqa: PLC0415

    return jelly, options, flows, ioutils, streams


def make_options(
    cls: str,
    preset: tuple[int, int, int],
    frame_size: int = 250,
    delimited: bool = True,
    logical: int | None = None,
    *,
    generalized: bool = True,
    rdf_star: bool = True,
    ns: bool = False,
    stream_name: str = "",
    flow=None,
):
    jelly, options, flows, ioutils, streams = _mods()
    lt = FLAT_LT[cls] if logical is None else logical
    return streams.SerializerOptions(
        flow=flow,
        frame_size=frame_size,
        logical_type=lt,
        params=options.StreamParameters(
            generalized_statements=generalized,
            rdf_star=rdf_star,
            delimited=delimited,
            namespace_declarations=ns,
            stream_name=stream_name,
        ),
        lookup_preset=options.LookupPreset(
            max_names=preset[0], max_prefixes=preset[1], max_datatypes=preset[2]
        ),
    )


def stream_class(cls: str):
    _, _, _, _, streams = _mods()
    return {"triple": streams.TripleStream, "quad": streams.QuadStream,
            "graph": streams.GraphStream}[cls]


def frames_to_bytes(frames, delimited: bool) -> bytes:
    """Write frames the way the documented callers do: each frame as soon as it is yielded.

    A caller may just as well collect the frames first (the repository's own tests do
    ``list(flat_stream_to_frames(...))``); if a frame object changed after it was yielded, the
    bytes such a caller would write are returned instead, so that every oracle sees them."""
    _, _, _, ioutils, _ = _mods()
    out = io.BytesIO()
    kept = []
    for fr in frames:
        kept.append((fr, fr.SerializeToString()))
        if delimited:
            ioutils.write_delimited(fr, out)
        else:
            ioutils.write_single(fr, out)
    if any(fr.SerializeToString() != snap for fr, snap in kept):
        out = io.BytesIO()
        for fr, _ in kept:
            if delimited:
                ioutils.write_delimited(fr, out)
            else:
                ioutils.write_single(fr, out)
    return out.getvalue()


# ------------------------------------------------------------------ generic
G_WRITERS = ("stream_frames_gen", "stream_frames_sink", "flat_to_frames", "flat_to_file",
             "grouped_to_file", "stream_frames_list", "flat_to_frames_iter")


def g_stream(cls: str, opts):
    from pyjelly.integrations.generic.serialize import GenericSinkTermEncoder  # noqa: PLC0415

    return stream_class(cls)(
        encoder=GenericSinkTermEncoder(lookup_preset=opts.lookup_preset), options=opts
    )


def g_sink(seq, bindings=()):
    from pyjelly.integrations.generic import generic_sink as gs  # noqa: PLC0415

    sink = gs.GenericStatementSink()
    for p, iri in bindings:
        sink.bind(p, gs.IRI(iri))
    for st in seq:
        sink.add(T.st_to_generic(st))
    return sink


def g_write(seq, cls: str, opts, entry: str = "stream_frames_gen", bindings=()) -> bytes:
    """Serialize neutral statements through one generic entry point."""
    from pyjelly.integrations.generic import serialize as gser  # noqa: PLC0415

    delimited = opts.params.delimited
    stmts = [T.st_to_generic(s) for s in seq]
    if entry == "stream_frames_gen":
        stream = g_stream(cls, opts)
        return frames_to_bytes(gser.stream_frames(stream, (s for s in stmts)), delimited)
    if entry == "stream_frames_sink":
        stream = g_stream(cls, opts)
        return frames_to_bytes(gser.stream_frames(stream, g_sink(seq, bindings)), delimited)
    if entry == "stream_frames_list":  # the statements as a plain list
        stream = g_stream(cls, opts)
        return frames_to_bytes(gser.stream_frames(stream, list(stmts)), delimited)
    if entry == "flat_to_frames_iter":  # an iterator object that is not a generator
        return frames_to_bytes(gser.flat_stream_to_frames(iter(tuple(stmts)), opts), delimited)
    if entry == "flat_to_frames":
        return frames_to_bytes(gser.flat_stream_to_frames((s for s in stmts), opts), delimited)
    if entry == "flat_to_frames_tuples":  # plain tuples of terms, not Triple / Quad objects
        return frames_to_bytes(gser.flat_stream_to_frames((tuple(s) for s in stmts), opts),
                               delimited)
    if entry == "flat_to_file":
        out = io.BytesIO()
        gser.flat_stream_to_file((s for s in stmts), out, opts)
        return out.getvalue()
    if entry == "grouped_to_file":
        out = io.BytesIO()
        gser.grouped_stream_to_file((s for s in [g_sink(seq, bindings)]), out, options=opts)
        return out.getvalue()
    if entry == "grouped_split":
        # the statements arrive as two sinks written through one shared stream
        out = io.BytesIO()
        parts = [seq[:1], seq[1:]]
        gser.grouped_stream_to_file((g_sink(p) for p in parts), out, options=opts)
        return out.getvalue()
    if entry == "sink_serialize":
        out = io.BytesIO()
        g_sink(seq, bindings).serialize(out)
        return out.getvalue()
    if entry == "flat_to_file_default":  # options guessed from the first statement
        out = io.BytesIO()
        gser.flat_stream_to_file((s for s in stmts), out)
        return out.getvalue()
    if entry == "grouped_to_file_default":
        out = io.BytesIO()
        gser.grouped_stream_to_file((s for s in [g_sink(seq, bindings)]), out)
        return out.getvalue()
    raise ValueError(entry)


G_READERS = ("flat", "grouped", "to_graph", "sink_parse")


def g_read(data: bytes, entry: str = "flat", src=None) -> list:
    """Parse through one generic entry point -> neutral events [("st",..)|("ns",..)]."""
    from pyjelly.integrations.generic import generic_sink as gs  # noqa: PLC0415
    from pyjelly.integrations.generic import parse as gp  # noqa: PLC0415

    inp = src if src is not None else io.BytesIO(data)
    if entry == "flat":
        return [T.ev_from_generic(x) for x in gp.parse_jelly_flat(inp)]
    if entry == "grouped":
        out = []
        for sink in gp.parse_jelly_grouped(inp):
            out += [("ns", p, T.from_generic(i)) for p, i in sink.namespaces]
            out += [("st", T.norm_st(T.st_from_generic(s))) for s in sink]
        return out
    if entry == "to_graph":
        sink = gp.parse_jelly_to_graph(inp)
    elif entry == "to_graph_factory":
        class MySink(gs.GenericStatementSink):
            pass

        sink = gp.parse_jelly_to_graph(inp, sink_factory=lambda: MySink())
        if not isinstance(sink, MySink):
            raise AssertionError("parse_jelly_to_graph ignored the supplied sink_factory")
    elif entry == "sink_parse":
        sink = gs.GenericStatementSink()
        sink.parse(inp)
    else:
        raise ValueError(entry)
    out = [("ns", p, T.from_generic(i)) for p, i in sink.namespaces]
    out += [("st", T.norm_st(T.st_from_generic(s))) for s in sink]
    return out


def g_read_grouped(data: bytes, src=None, **kw) -> list[list]:
    """One event list per yielded sink."""
    from pyjelly.integrations.generic import parse as gp  # noqa: PLC0415

    inp = src if src is not None else io.BytesIO(data)
    out = []
    for sink in gp.parse_jelly_grouped(inp, **kw):
        evs = [("ns", p, T.from_generic(i)) for p, i in sink.namespaces]
        evs += [("st", T.norm_st(T.st_from_generic(s))) for s in sink]
        out.append(evs)
    return out


def stmts_of(events: list) -> list:
    return [e[1] for e in events if e[0] == "st"]


def ns_of(events: list) -> list:
    return [(e[1], e[2]) for e in events if e[0] == "ns"]


# ------------------------------------------------------------------- rdflib
def r_stream(cls: str, opts):
    return stream_class(cls).for_rdflib(options=opts)


# (several names, so that in rdflib's hash order some come before and some after the non-empty
#  graphs)
EMPTY_GRAPHS = ("http://b#empty", "http://zz/empty2", "http://a/e1", "urn:e2", "http://c/e3",
                "e4")


def _dataset_class(order):
    import rdflib  # noqa: PLC0415

    if order is None:
        return rdflib.Dataset
    if order == "default-union":
        # Dataset(default_union=True): queries on the dataset see the union of all graphs, its
        # default graph still holds its own statements only
        return lambda: rdflib.Dataset(default_union=True)

    class OrderedDataset(rdflib.Dataset):
        """A Dataset that lists its graphs in a fixed order: the empty ones first (or last),
        then by name (rdflib itself lists them in hash order)."""

        def graphs(self, triple=None):
            gs = list(super().graphs(triple))
            first = order == "empty-first"
            return iter(sorted(gs, key=lambda g: ((len(g) > 0) == first, str(g.identifier))))

    return OrderedDataset


def r_graph(seq, bindings=(), empty=(), order=None):
    """Graph for triples, Dataset for quads (explicit labels, no default bindings lost)."""
    import rdflib  # noqa: PLC0415

    if seq and len(seq[0]) == 4:
        ds = _dataset_class(order)()
        for e in empty:
            ds.graph(rdflib.URIRef(e))  # registered, stays empty
        for p, iri in bindings:
            ds.bind(p, rdflib.URIRef(iri), override=True, replace=True)
        for st in seq:
            s, p, o, g = (T.to_rdflib(t) for t in st)
            ds.add((s, p, o, ds.get_context(g)))
        return ds
    g = rdflib.Graph()
    for p, iri in bindings:
        g.bind(p, rdflib.URIRef(iri), override=True, replace=True)
    for st in seq:
        g.add(tuple(T.to_rdflib(t) for t in st))
    return g


R_WRITERS = ("stream_frames_gen", "flat_to_frames", "flat_to_file", "graph_serialize_stream",
             "graph_serialize_options", "grouped_to_file", "stream_frames_graph",
             "stream_frames_list", "flat_to_frames_iter")


def r_write(seq, cls: str, opts, entry: str = "stream_frames_gen", bindings=()) -> bytes:
    from pyjelly.integrations.rdflib import serialize as rser  # noqa: PLC0415

    delimited = opts.params.delimited
    if entry == "stream_frames_gen":
        stmts = [T.st_to_rdflib(s) for s in seq]
        return frames_to_bytes(rser.stream_frames(r_stream(cls, opts), (s for s in stmts)),
                               delimited)
    if entry == "stream_frames_list":
        stmts = [T.st_to_rdflib(s) for s in seq]
        return frames_to_bytes(rser.stream_frames(r_stream(cls, opts), stmts), delimited)
    if entry == "flat_to_frames_iter":
        stmts = [T.st_to_rdflib(s) for s in seq]
        return frames_to_bytes(rser.flat_stream_to_frames(iter(tuple(stmts)), opts), delimited)
    if entry == "flat_to_frames":
        stmts = [T.st_to_rdflib(s) for s in seq]
        return frames_to_bytes(rser.flat_stream_to_frames((s for s in stmts), opts), delimited)
    if entry == "flat_to_frames_tuples":  # plain tuples (what Graph.triples() / Dataset.quads() give)
        stmts = [tuple(T.to_rdflib(t) for t in s) for s in seq]
        return frames_to_bytes(rser.flat_stream_to_frames((s for s in stmts), opts), delimited)
    if entry == "flat_to_file":
        stmts = [T.st_to_rdflib(s) for s in seq]
        out = io.BytesIO()
        rser.flat_stream_to_file((s for s in stmts), out, opts)
        return out.getvalue()
    if entry == "flat_to_file_default":
        stmts = [T.st_to_rdflib(s) for s in seq]
        out = io.BytesIO()
        rser.flat_stream_to_file((s for s in stmts), out)
        return out.getvalue()
    g = r_graph(seq, bindings, EMPTY_GRAPHS if entry.endswith("+empty") else ())
    entry = entry.split("+")[0]  # ("+ns": the caller's options ask for declarations)
    if entry == "stream_frames_graph":
        return frames_to_bytes(rser.stream_frames(r_stream(cls, opts), g), delimited)
    if entry == "graph_serialize_stream":
        out = io.BytesIO()
        g.serialize(destination=out, format="jelly", stream=r_stream(cls, opts), options=opts)
        return out.getvalue()
    if entry == "graph_serialize_options":
        return g.serialize(format="jelly", options=opts, encoding="utf-8")
    if entry == "graph_serialize_default":
        return g.serialize(format="jelly", encoding="utf-8")
    if entry == "grouped_to_file_default":
        out = io.BytesIO()
        rser.grouped_stream_to_file((x for x in [g]), out)
        return out.getvalue()
    if entry == "grouped_to_file":
        out = io.BytesIO()
        rser.grouped_stream_to_file((x for x in [g]), out, options=opts)
        return out.getvalue()
    raise ValueError(entry)


def _graph_events(g) -> list:
    import rdflib  # noqa: PLC0415

    if isinstance(g, rdflib.Dataset):
        return [("st", T.norm_st((T.from_rdflib(s), T.from_rdflib(p), T.from_rdflib(o),
                                  T.from_rdflib(c, graph_pos=True)))) for s, p, o, c in g.quads()]
    return [("st", T.norm_st(tuple(T.from_rdflib(t) for t in tr))) for tr in g]


R_READERS = ("flat", "grouped", "to_graph", "graph_parse")


def r_read(data: bytes, entry: str = "flat", src=None, quads: bool = False) -> list:
    import rdflib  # noqa: PLC0415
    from pyjelly.integrations.rdflib import parse as rp  # noqa: PLC0415

    inp = src if src is not None else io.BytesIO(data)
    if entry == "flat":
        return [T.ev_from_rdflib(x) for x in rp.parse_jelly_flat(inp)]
    if entry == "grouped":
        out = []
        for g in rp.parse_jelly_grouped(inp):
            out += _graph_events(g)
        return out
    if entry == "to_graph":
        return _graph_events(rp.parse_jelly_to_graph(inp))
    if entry == "to_graph_factory":
        class MyGraph(rdflib.Graph):
            pass

        class MyDataset(rdflib.Dataset):
            pass

        g = rp.parse_jelly_to_graph(inp, graph_factory=lambda: MyGraph(),
                                    dataset_factory=lambda: MyDataset())
        if not isinstance(g, (MyGraph, MyDataset)):
            raise AssertionError("parse_jelly_to_graph ignored the supplied factories")
        return _graph_events(g)
    if entry == "graph_parse":
        g = rdflib.Dataset() if quads else rdflib.Graph()
        g.parse(inp, format="jelly")
        return _graph_events(g)
    raise ValueError(entry)


def ensure_rdflib_plugin() -> None:
    import pyjelly.integrations.rdflib  # noqa: F401, PLC0415
    import rdflib.plugin as plugin  # noqa: PLC0415
    from rdflib.parser import Parser  # noqa: PLC0415
    from rdflib.serializer import Serializer  # noqa: PLC0415

    try:
        plugin.get("jelly", Serializer)
    except Exception:  # noqa: BLE001
        plugin.register("jelly", Serializer, "pyjelly.integrations.rdflib.serialize",
                        "RDFLibJellySerializer")
        plugin.register("jelly", Parser, "pyjelly.integrations.rdflib.parse",
                        "RDFLibJellyParser")
