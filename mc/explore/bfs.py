"""Explicit-state breadth-first search over real (deep-copied) objects.

state   : any deep-copyable Python object holding live pyjelly objects
events  : finite menu; step(state, ev) mutates the state and returns a list of
          failure strings (empty = oracle satisfied on this transition)
canon   : state -> hashable canonical key (dedup); must only merge states with
          identical futures
Parent pointers give the shortest event history to every state.
"""
from __future__ import annotations

import copy
from collections import deque
from typing import Any, Callable


class BfsResult:
    def __init__(self) -> None:
        self.states = 0
        self.transitions = 0
        self.closed = False
        self.max_depth = 0
        self.failures: list[dict] = []  # {"path": [...events], "fails": [...]}
        self.depth_complete = 0
        self.sample_paths: list[list] = []


def bfs(
    init: Callable[[], Any],
    events: Callable[[Any], list],
    step: Callable[[Any, Any], list],
    canon: Callable[[Any], Any],
    *,
    max_states: int = 10**9,
    max_failures: int = 20,
    clone: Callable[[Any], Any] = copy.deepcopy,
    ev_json: Callable[[Any], Any] = lambda e: e,
) -> BfsResult:
    res = BfsResult()
    s0 = init()
    k0 = canon(s0)
    parent: dict = {k0: None}
    frontier: deque = deque([(s0, k0, 0)])
    res.states = 1
    capped = False
    while frontier:
        st, key, depth = frontier.popleft()
        res.depth_complete = depth
        for ev in events(st):
            nxt = clone(st)
            fails = step(nxt, ev)
            res.transitions += 1
            if fails:
                if len(res.failures) < max_failures:
                    res.failures.append(
                        {"path": [ev_json(e) for e in path_to(parent, key)] + [ev_json(ev)],
                         "fails": fails}
                    )
                continue  # do not expand beyond a violating transition
            k = canon(nxt)
            if k in parent:
                continue
            if res.states >= max_states:
                capped = True
                continue
            parent[k] = (key, ev)
            res.states += 1
            res.max_depth = max(res.max_depth, depth + 1)
            frontier.append((nxt, k, depth + 1))
            if len(res.sample_paths) < 3 and depth + 1 >= 3:
                res.sample_paths.append([ev_json(e) for e in path_to(parent, k)])
    res.closed = not capped
    return res


def path_to(parent: dict, key: Any) -> list:
    out = []
    while parent[key] is not None:
        key, ev = parent[key]
        out.append(ev)
    out.reverse()
    return out


# ------------------------------------------------------- generic state dumps
_ATOM = (str, int, float, bool, bytes, type(None))


def dump(obj: Any, depth: int = 0, seen: dict | None = None) -> Any:
    """Generic, order-preserving, hashable dump of an object graph.

    Walks __dict__s so that a field added by a later change to pyjelly becomes
    part of the key automatically.  Callables, classes and modules are skipped.
    """
    if seen is None:
        seen = {}
    if isinstance(obj, _ATOM):
        return obj
    oid = id(obj)
    if oid in seen:
        return ("@", seen[oid])
    if depth > 12:
        return ("...",)
    import types  # noqa: PLC0415

    if isinstance(obj, (types.FunctionType, types.MethodType, types.BuiltinFunctionType,
                        type, types.ModuleType)):
        return None
    seen[oid] = len(seen)
    if isinstance(obj, dict):
        # insertion order is state for OrderedDict (LRU order); plain dicts too
        return ("d", tuple((dump(k, depth + 1, seen), dump(v, depth + 1, seen))
                           for k, v in obj.items()))
    if isinstance(obj, (list, tuple, deque)):
        return ("l", tuple(dump(v, depth + 1, seen) for v in obj))
    if isinstance(obj, (set, frozenset)):
        return ("s", tuple(sorted((dump(v, depth + 1, seen) for v in obj), key=repr)))
    if hasattr(obj, "SerializeToString") and hasattr(obj, "DESCRIPTOR"):
        return ("pb", obj.SerializeToString(deterministic=True))
    d = getattr(obj, "__dict__", None)
    if d is not None:
        items = []
        for k, v in d.items():
            dv = dump(v, depth + 1, seen)
            if dv is None and not isinstance(v, type(None)):
                continue
            items.append((k, dv))
        data = getattr(obj, "data", None)
        extra = ()
        if "data" not in d and data is not None:
            extra = (("data", dump(data, depth + 1, seen)),)
        return (type(obj).__name__, tuple(items) + extra)
    slots = getattr(type(obj), "__slots__", None)
    if slots:
        return (type(obj).__name__, tuple((s, dump(getattr(obj, s, None), depth + 1, seen))
                                          for s in slots))
    return ("repr", repr(obj))
