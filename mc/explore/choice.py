"""Stateless deviation-bounded exploration of choice points.

A component asks chooser.choose(n, label) at every nondeterministic point;
answer 0 is the default.  explore() runs the all-defaults execution, then every
execution with 1 deviation, then 2, ... up to `bound`, replaying the recorded
prefix each time.  A replay that meets a different arity is a hard error.
"""
from __future__ import annotations

from typing import Callable


class ReplayDivergence(Exception):
    pass


class Chooser:
    def __init__(self, prefix=()) -> None:
        self.prefix = list(prefix)
        self.trace: list[tuple[int, str, int]] = []

    def choose(self, n: int, label: str = "") -> int:
        i = len(self.trace)
        c = self.prefix[i] if i < len(self.prefix) else 0
        if n <= 0:
            raise ReplayDivergence(f"choice point {i} ({label}) has no options")
        if c >= n:
            raise ReplayDivergence(f"choice {c} out of range {n} at point {i} ({label})")
        self.trace.append((n, label, c))
        return c

    def choices(self) -> list[int]:
        return [c for _, _, c in self.trace]

    def deviations(self) -> list[tuple[int, str, int]]:
        return [(i, lab, c) for i, (_, lab, c) in enumerate(self.trace) if c]


def explore(run: Callable[[Chooser], object], bound: int, visit: Callable[[Chooser, object], None],
            max_runs: int = 10**9) -> dict:
    """run(chooser) -> result; visit(chooser, result) is called for every execution."""
    stats = {"runs": 0, "points": 0, "capped": False}

    def go(prefix: list[int], used: int, start: int) -> None:
        if stats["runs"] >= max_runs:
            stats["capped"] = True
            return
        ch = Chooser(prefix)
        res = run(ch)
        if ch.choices()[: len(prefix)] != prefix:
            raise ReplayDivergence(f"replay diverged: asked {prefix}, took {ch.choices()}")
        stats["runs"] += 1
        stats["points"] += len(ch.trace)
        visit(ch, res)
        if used >= bound:
            return
        trace = list(ch.trace)
        base = ch.choices()
        for i in range(start, len(trace)):
            n = trace[i][0]
            for alt in range(1, n):
                go(base[:i] + [alt], used + 1, i + 1)

    go([], 0, 0)
    return stats
