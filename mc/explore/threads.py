"""Controlled scheduler for real threads (one runnable at a time).

Every thread runs under a sys.settrace hook; at each 'line' event in a file
under the traced root (the code under test) the thread reaches a scheduling
point.  A schedule is a list of switch points: ("run thread t until its k-th
point, then hand the baton to thread u").  Exploration is preemption-bounded:
0 preemptions = threads run to completion one after another.

Threads here never block on each other (no locks in the code under test), so
"no enabled thread" cannot occur; a horizon on the number of points guards
against runaway executions.
"""
from __future__ import annotations

import sys
import threading
from typing import Callable

HORIZON = 200_000


class Scheduler:
    def __init__(self, bodies: list[Callable[[], object]], root: str, switches: list[tuple[int, int, int]]):
        """switches: [(thread, at_point, to_thread)], consumed in order."""
        self.bodies = bodies
        self.root = root
        self.switches = list(switches)
        self.n = len(bodies)
        self.sems = [threading.Semaphore(0) for _ in bodies]
        self.points = [0] * self.n
        self.done = [False] * self.n
        self.results: list = [None] * self.n
        self.errors: list = [None] * self.n
        self.current = 0
        self.order: list[int] = []  # threads in the order they held the baton
        self.applied: list[tuple[int, int, int]] = []
        self.interleaved_pyjelly = False
        self.main_sem = threading.Semaphore(0)
        self.total = 0

    # called by a thread that holds the baton
    def _handoff(self, me: int, to: int | None) -> None:
        if to is None:
            # pick the lowest unfinished thread
            rest = [i for i in range(self.n) if not self.done[i] and i != me]
            if not rest:
                self.main_sem.release()
                return
            to = rest[0]
        self.current = to
        self.order.append(to)
        self.sems[to].release()

    def point(self, me: int) -> None:
        self.points[me] += 1
        self.total += 1
        if self.total > HORIZON:
            raise RuntimeError("scheduler horizon exceeded")
        if self.switches and self.switches[0][0] == me and self.switches[0][1] == self.points[me]:
            _, _, to = self.switches.pop(0)
            if not self.done[to] and to != me:
                self.applied.append((me, self.points[me], to))
                self.interleaved_pyjelly = True
                self._handoff(me, to)
                self.sems[me].acquire()

    def _thread(self, me: int) -> None:
        self.sems[me].acquire()
        root = self.root

        def tracer(frame, event, arg):
            if not frame.f_code.co_filename.startswith(root):
                return None
            if event == "line":
                self.point(me)
            return tracer

        sys.settrace(tracer)
        try:
            self.results[me] = self.bodies[me]()
        except BaseException as e:  # noqa: BLE001
            self.errors[me] = f"{type(e).__name__}: {e}"
        finally:
            sys.settrace(None)
            self.done[me] = True
            self._handoff(me, None)

    def run(self):
        threads = [threading.Thread(target=self._thread, args=(i,), daemon=True)
                   for i in range(self.n)]
        for t in threads:
            t.start()
        self.order.append(0)
        self.sems[0].release()
        self.main_sem.acquire()
        for t in threads:
            t.join(timeout=10)
        return self


def count_points(body: Callable[[], object], root: str) -> int:
    s = Scheduler([body], root, []).run()
    if s.errors[0]:
        raise RuntimeError(s.errors[0])
    return s.points[0]


def schedules_two(n0: int, n1: int, bound: int, stride: int = 1):
    """Switch lists for two threads with <= bound preemptions (thread 0 starts)."""
    yield []
    if bound >= 1:
        for k in range(1, n0 + 1, stride):
            yield [(0, k, 1)]
    if bound >= 2:
        for k in range(1, n0 + 1, stride):
            for j in range(1, n1 + 1, stride):
                yield [(0, k, 1), (1, j, 0)]


def schedules_three(ns: list[int], stride: int = 1):
    """Three threads (0 starts, others follow in order), exactly <= 1 preemption."""
    yield []
    for t in range(3):
        for u in range(3):
            if u != t:
                for k in range(1, ns[t] + 1, stride):
                    yield [(t, k, u)]
