"""Spec-level reference Jelly encoder with choice points ("another producer").

Encodes neutral statements into Jelly bytes with mc.jwire, asking
chooser.choose() wherever the format leaves the producer free.  Answer 0
everywhere gives a plain LRU / zero-form / eliding producer; every deviation is
a legal behaviour of some other conformant producer.  Every emitted stream is
validated by the caller against jspec (strict) before it is used as a test
input: a rejected stream is a harness fault, never a verdict.
"""
from __future__ import annotations

from mc import jwire
from mc.alphabets import split_iri
from mc.terms import XSD_STRING


class Table:
    def __init__(self, size: int) -> None:
        self.size = size
        self.slot_of: dict[str, int] = {}
        self.value_at: dict[int, str] = {}
        self.lru: list[int] = []  # slots, least recently used first
        self.last_entry = 0

    def touch(self, slot: int) -> None:
        if slot in self.lru:
            self.lru.remove(slot)
        self.lru.append(slot)


class RefEncoder:
    def __init__(self, chooser, physical: int, sizes=(8, 0, 0), *, version: int | None = None,
                 logical: int = 0, stream_name: str = "", generalized=True, rdf_star=True,
                 features=frozenset()) -> None:
        self.ch = chooser
        self.pt = physical
        self.names = Table(sizes[0])
        self.prefixes = Table(sizes[1])
        self.datatypes = Table(sizes[2])
        self.last_prefix = 0
        self.last_name = 0
        self.prev: dict[str, tuple] = {}
        self.rows: list[dict] = []      # rows of the frame being built
        self.frames: list[tuple[list, dict]] = []
        self.graph_open = None
        self.features = features         # enabled kinds of deviation
        self.options = {
            "stream_name": stream_name, "physical_type": physical, "logical_type": logical,
            "generalized_statements": generalized, "rdf_star": rdf_star,
            "max_name_table_size": sizes[0], "max_prefix_table_size": sizes[1],
            "max_datatype_table_size": sizes[2], "version": version or 1,
        }
        self.pinned: dict[int, set[int]] = {}
        self.meta_counter = 0

    # ------------------------------------------------------------ choices
    def _c(self, feature: str, n: int, label: str) -> int:
        if feature not in self.features:
            return 0
        return self.ch.choose(n, label)

    # ------------------------------------------------------------- tables
    def _entry(self, table: Table, kind: str, value: str) -> int:
        """Make sure `value` has a slot; emit entry rows as needed; return the slot."""
        pinned = self.pinned.setdefault(id(table), set())
        slot = table.slot_of.get(value)
        if slot is not None:
            resend = self._c("resend", 2, f"resend-{kind}")
            if resend:
                self._emit_entry(table, kind, slot, value)
            table.touch(slot)
            pinned.add(slot)
            return slot
        # candidates: next free slot, else victims in LRU order; never a pinned slot
        free = [s for s in range(1, table.size + 1) if s not in table.value_at]
        if free:
            cands = free[:1] + [s for s in table.lru if s not in pinned][:1] + free[-1:]
        else:
            cands = [s for s in table.lru if s not in pinned]
        cands = list(dict.fromkeys(cands))[:3]
        if not cands:
            raise ValueError("statement needs more entries than the table holds")
        slot = cands[self._c("slot", len(cands), f"slot-{kind}")]
        old = table.value_at.get(slot)
        if old is not None:
            del table.slot_of[old]
        table.value_at[slot] = value
        table.slot_of[value] = slot
        self._emit_entry(table, kind, slot, value)
        table.touch(slot)
        pinned.add(slot)
        return slot

    def _emit_entry(self, table: Table, kind: str, slot: int, value: str) -> None:
        wid = slot
        if slot == table.last_entry + 1 and not self._c("explicit-entry-id", 2, f"entry-id-{kind}"):
            wid = 0
        table.last_entry = slot
        self.rows.append(jwire.mkrow(kind, {"id": wid, "value": value}))

    # -------------------------------------------------------------- terms
    def _iri(self, iri: str) -> tuple:
        if self.prefixes.size == 0:
            prefix, name = "", iri
        else:
            splits = [split_iri(iri)]
            if "split" in self.features:
                alts = [("", iri), (iri[:1], iri[1:]), (iri, "")]
                splits += [a for a in alts if a not in splits]
            prefix, name = splits[self._c("split", len(splits), "iri-split")]
        pid = 0
        if self.prefixes.size:
            if prefix == "" and self.last_prefix == 0 and not self._c("empty-prefix-entry", 2,
                                                                      "empty-prefix"):
                pid = 0  # no prefix used yet: 0 means "no prefix"
            else:
                pslot = self._entry(self.prefixes, "prefix", prefix)
                if pslot == self.last_prefix and not self._c("explicit-ref", 2, "prefix-ref"):
                    pid = 0
                else:
                    pid = pslot
                self.last_prefix = pslot
        nslot = self._entry(self.names, "name", name)
        if nslot == self.last_name + 1 and not self._c("explicit-ref", 2, "name-ref"):
            nid = 0
        else:
            nid = nslot
        self.last_name = nslot
        return ("iri", pid, nid)

    def _term(self, t: tuple) -> tuple:
        k = t[0]
        if k == "I":
            return self._iri(t[1])
        if k == "B":
            return ("bnode", t[1])
        if k == "L":
            lex, lang, dt = t[1], t[2], t[3]
            if lang:
                return ("literal", lex, lang, None)
            if dt and dt != XSD_STRING:
                slot = self._entry(self.datatypes, "datatype", dt)
                return ("literal", lex, None, slot)
            if self.datatypes.size and self._c("explicit-xsd-string", 2, "explicit-xsd-string"):
                # a producer may state xsd:string explicitly through the datatype table
                slot = self._entry(self.datatypes, "datatype", XSD_STRING)
                return ("literal", lex, None, slot)
            return ("literal", lex, None, None)
        if k == "T":
            return ("triple", {"s": self._term(t[1]), "p": self._term(t[2]),
                               "o": self._term(t[3])})
        if k == "D":
            return ("default",)
        raise ValueError(t)

    # --------------------------------------------------------------- rows
    def start(self) -> None:
        self.rows.append(jwire.mkrow("options", self.options))

    def namespace(self, name: str, iri: str) -> None:
        self.pinned = {}
        t = self._iri(iri)
        self.rows.append(jwire.mkrow("namespace", {"name": name, "iri": t}))

    def _spo(self, st, slots: str) -> dict:
        d = {}
        for slot, term in zip(slots, st):
            if slot in self.prev and self.prev[slot] == term and not self._c(
                    "no-elide", 2, f"elide-{slot}"):
                continue
            d[slot] = self._term(term)
            self.prev[slot] = term
        return d

    def statement(self, st) -> None:
        self.pinned = {}
        if self.pt == 1:
            d = self._spo(st[:3], "spo")
            self.rows.append(jwire.mkrow("triple", d))
        elif self.pt == 2:
            d = self._spo(st, "spog")
            self.rows.append(jwire.mkrow("quad", d))
        else:
            g = st[3]
            if self.graph_open is not None and (
                    self.graph_open != g or self._c("regraph", 2, "reopen-graph")):
                self.rows.append(jwire.mkrow("graph_end", {}))
                self.graph_open = None
                self.maybe_cut("graph")
            if self.graph_open is None:
                self.pinned = {}
                gt = self._term(g)
                self.rows.append(jwire.mkrow("graph_start", {"g": gt}))
                self.graph_open = g
                self.pinned = {}
            d = self._spo(st[:3], "spo")
            self.rows.append(jwire.mkrow("triple", d))

    # -------------------------------------------------------------- frames
    def cut(self, metadata=None) -> None:
        self.frames.append((self.rows, metadata or {}))
        self.rows = []

    def maybe_cut(self, where: str) -> None:
        c = self._c("frames", 5, f"cut-{where}")
        if c == 0:
            return
        self.cut()
        if c == 2:
            self.frames.append(([], {}))  # an empty frame
        if c == 3:
            self.meta_counter += 1
            self.frames.append(([], {"k": bytes([self.meta_counter])}))
        if c == 4 or self._c("repeat-options", 2, "repeat-options"):
            # a producer may repeat the identical options row at the start of a frame
            self.rows.append(jwire.mkrow("options", self.options))

    def prefetch(self, st) -> None:
        """Define the lookup entries of the next statement's first IRI ahead of time."""
        self.pinned = {}
        for t in st:
            if t[0] == "I":
                if self.prefixes.size:
                    prefix, name = split_iri(t[1])
                    self._entry(self.prefixes, "prefix", prefix)
                else:
                    name = t[1]
                self._entry(self.names, "name", name)
                return

    def finish(self) -> None:
        if self.pt == 3 and self.graph_open is not None:
            self.rows.append(jwire.mkrow("graph_end", {}))
            self.graph_open = None
        if self.rows or not self.frames:
            self.cut()


ALL_FEATURES = frozenset({
    "resend", "slot", "explicit-entry-id", "split", "empty-prefix-entry", "explicit-ref",
    "no-elide", "regraph", "frames", "repeat-options", "version", "single-frame",
    "leading-empty", "early-entry", "late-namespace", "explicit-xsd-string",
})


def encode(chooser, seq, physical: int, sizes, *, namespaces=(), features=ALL_FEATURES,
           logical: int = 0):
    """-> (bytes, delimited?, frames as [(rows, metadata)]).  Raises ValueError if impossible."""
    version = 2 if namespaces else 1
    if "version" in features and not namespaces and chooser.choose(2, "version"):
        version = 2
    enc = RefEncoder(chooser, physical, sizes, version=version, features=features,
                     logical=logical)
    single = "single-frame" in features and chooser.choose(2, "single-frame") == 1
    if single:
        enc.features = enc.features - {"frames", "repeat-options"}
    lead = 0
    if "leading-empty" in features and not single:
        lead = chooser.choose(3, "leading-empty")
    if lead == 1:
        enc.frames.append(([], {}))
    elif lead == 2:
        enc.frames.append(([], {"lead": b"\x01"}))
    enc.start()
    for name, iri in namespaces:
        enc.namespace(name, iri)
    for i, st in enumerate(seq):
        if i or namespaces:
            enc.maybe_cut("statement")
        if i + 1 < len(seq) and enc._c("early-entry", 2, "early-entry"):
            enc.prefetch(seq[i + 1])
        before = len(enc.rows)
        enc.statement(st)
        if len(enc.rows) - before >= 2 and not single and enc._c(
                "frames", 2, "cut-before-statement-row"):
            # the frame ends after the lookup entries; the row that uses them opens the next one
            last = enc.rows.pop()
            enc.cut()
            enc.rows.append(last)
        if namespaces and enc._c("late-namespace", 2, "late-namespace"):
            # a producer may declare a namespace anywhere, also between two statements of a frame
            # (same label as the first declaration, another namespace: a legal re-declaration)
            enc.namespace(namespaces[0][0], "http://late/ns#")
    enc.finish()
    raw = [jwire.enc_frame(rows, meta) for rows, meta in enc.frames]
    if single:
        return raw[0], False, enc.frames
    return jwire.write_delimited(raw), True, enc.frames
