"""Shared enumeration of the serializer input/configuration space (generic API).

Space A ("core"): every statement sequence of length <= L over each scope x
stream class x preset x frame size x framing, through the canonical writer
(stream_frames on a generator).
Space B ("entry points"): every sequence of length <= LB x class x 2 presets x
frame sizes {1,250} x every write entry point.
A judge(case, data|exception, acc) callback decides the property.
"""
from __future__ import annotations

from mc import alphabets as AL
from mc import drivers as DR
from mc import pool

FRAME_SIZES = (1, 2, 3, 250)


def core_jobs(maxlen: int, scopes=None, long_scopes=(), long_len=0, parts: int = 4) -> list:
    jobs = []
    for scope in scopes or AL.SCOPES:
        L = long_len if scope in long_scopes else maxlen
        n = AL.n_sequences(6, L)
        for cls in DR.CLASSES:
            for pi in range(len(AL.SCOPES[scope]["presets"])):
                for lo, hi in pool.split_range(n, parts):
                    jobs.append(("A", scope, cls, pi, L, lo, hi))
    return jobs


def entry_jobs(maxlen: int, scopes=None) -> list:
    jobs = []
    for scope in scopes or AL.SCOPES:
        for cls in DR.CLASSES:
            jobs.append(("B", scope, cls, 0, maxlen, 0, AL.n_sequences(6, maxlen)))
    return jobs


def expected_cases(jobs: list) -> int:
    """Closed-form number of (sequence, configuration) points incl. out-of-domain ones."""
    tot = 0
    for kind, scope, cls, pi, L, lo, hi in jobs:
        if kind == "A":
            tot += (hi - lo) * len(FRAME_SIZES) * 2
        else:
            tot += (hi - lo) * len(entry_configs(cls))
    return tot


def entry_configs(cls: str) -> list:
    out = []
    for pi in (0, 3):
        for fs in (1, 250):
            for w in DR.G_WRITERS:
                if cls == "graph" and w in ("flat_to_frames", "flat_to_file", "grouped_to_file"):
                    continue  # these entry points choose the stream class themselves
                out.append((pi, fs, w))
    if cls != "graph":
        out.append((3, 250, "sink_serialize"))  # GenericStatementSink.serialize(): own defaults
    return out


def is_nontrivial(seq, preset) -> bool:
    """At least one repeated-term elision opportunity or one forced eviction."""
    for a, b in zip(seq, seq[1:]):
        if any(x == y for x, y in zip(a, b)):
            return True
    names: set = set()
    pf: set = set()
    dt: set = set()

    def walk(t):
        if t[0] == "I":
            if preset[1]:
                p, n = AL.split_iri(t[1])
                pf.add(p)
                names.add(n)
            else:
                names.add(t[1])
        elif t[0] == "L" and t[3]:
            dt.add(t[3])
        elif t[0] == "T":
            for x in t[1:]:
                walk(x)

    for st in seq:
        for t in st:
            walk(t)
    return len(names) > preset[0] or (preset[1] and len(pf) > preset[1]) or (
        preset[2] and len(dt) > preset[2])


def run_job(job, judge, include_out_of_domain: bool = False) -> dict:
    kind, scope, cls, pi, L, lo, hi = job
    acc = pool.Acc()
    arity = 3 if cls == "triple" else 4
    alpha = AL.alphabet(scope, arity)
    presets = AL.SCOPES[scope]["presets"]
    for idx in range(lo, hi):
        sym = AL.seq_at(idx, 6, L)
        seq = [alpha[i] for i in sym]
        if kind == "A":
            configs = [(pi, fs, dl, "stream_frames_gen") for fs in FRAME_SIZES for dl in (True, False)]
        else:
            configs = [(p, fs, True, w) for p, fs, w in entry_configs(cls)]
        for cpi, fs, dl, writer in configs:
            preset = presets[cpi]
            acc.evals += 1
            ood = not all(AL.fits(st, preset) for st in seq)
            if ood:
                acc.counters["out_of_domain"] += 1
                if not include_out_of_domain:
                    continue
            case = {"scope": scope, "cls": cls, "preset": list(preset), "frame_size": fs,
                    "delimited": dl, "writer": writer, "seq": list(sym)}
            if ood:
                case["out_of_domain"] = True
            if is_nontrivial(seq, preset):
                acc.nontrivial += 1
            try:
                opts = DR.make_options(cls, preset, fs, dl)
                data = DR.g_write(seq, cls, opts, writer)
            except Exception as e:  # noqa: BLE001
                judge(case, seq, None, e, acc)
                continue
            judge(case, seq, data, None, acc)
            if idx % 97 == 0:
                acc.sample({**case, "statements": seq, "bytes": len(data)}, cap=2)
    return acc.out()


def case_inputs(case: dict):
    """Rebuild (seq, opts) from a replay case."""
    arity = 3 if case["cls"] == "triple" else 4
    alpha = AL.alphabet(case["scope"], arity)
    seq = [alpha[i] for i in case["seq"]]
    opts = DR.make_options(case["cls"], tuple(case["preset"]), case["frame_size"],
                           case["delimited"])
    return seq, opts


def replay_case(case: dict, judge) -> list:
    acc = pool.Acc()
    seq, opts = case_inputs(case)
    try:
        data = DR.g_write(seq, case["cls"], opts, case["writer"])
    except Exception as e:  # noqa: BLE001
        judge(case, seq, None, e, acc)
    else:
        judge(case, seq, data, None, acc)
    return [v["what"] for v in acc.violations]
