"""Shared enumeration of the serializer input/configuration space (generic API).

Space A ("core"): every statement sequence of length <= L over each scope x
stream class x preset x frame size x framing, through the canonical writer
(stream_frames on a generator).
Space B ("entry points"): every sequence of length <= LB x class x 2 presets x
frame sizes {1,250} x every write entry point.
A judge(case, data|exception, acc) callback decides the property.
"""
from __future__ import annotations

from mc import alphabets as AL
from mc import drivers as DR
from mc import pool

FRAME_SIZES = (1, 2, 3, 250)


def core_jobs(maxlen: int, scopes=None, long_scopes=(), long_len=0, parts: int = 4) -> list:
    jobs = []
    for scope in scopes or AL.SCOPES:
        L = long_len if scope in long_scopes else maxlen
        n = AL.n_sequences(6, L)
        for cls in DR.CLASSES:
            for pi in range(len(AL.SCOPES[scope]["presets"])):
                for lo, hi in pool.split_range(n, parts):
                    jobs.append(("A", scope, cls, pi, L, lo, hi))
    return jobs


def entry_jobs(maxlen: int, scopes=None) -> list:
    jobs = []
    for scope in scopes or AL.SCOPES:
        for cls in DR.CLASSES:
            jobs.append(("B", scope, cls, 0, maxlen, 0, AL.n_sequences(6, maxlen)))
            if cls != "triple":
                # sink input with a graph name re-appearing after another one (g1, g2, g1):
                # length-3 sequences through the container-based entry points
                jobs.append(("B3", scope, cls, 0, 3, AL.n_sequences(6, 2), AL.n_sequences(6, 3)))
    return jobs


def expected_cases(jobs: list) -> int:
    """Closed-form number of (sequence, configuration) points incl. out-of-domain ones."""
    tot = scale_expected(jobs)
    for kind, scope, cls, pi, L, lo, hi in jobs:
        if kind == "S":
            continue
        if kind == "A":
            tot += (hi - lo) * (len(FRAME_SIZES) * 2 + (1 if cls != "graph" else 0))
        elif kind == "B3":
            tot += (hi - lo) * len(SINK_CONFIGS)
        else:
            tot += (hi - lo) * len(entry_configs(cls))
    return tot


def entry_configs(cls: str) -> list:
    out = []
    for pi in (0, 3):
        for fs in (1, 250):
            for w in DR.G_WRITERS:
                if cls == "graph" and w in ("flat_to_frames", "flat_to_file", "grouped_to_file",
                                           "flat_to_frames_iter"):
                    continue  # these entry points choose the stream class themselves
                out.append((pi, fs, w))
    if cls != "graph":
        out.append((3, 250, "sink_serialize"))  # GenericStatementSink.serialize(): own defaults
        out.append((3, 250, "flat_to_file_default"))  # options guessed by the entry point
        out.append((3, 250, "grouped_to_file_default"))
    return out


SINK_CONFIGS = [(1, 250, "stream_frames_sink"), (3, 2, "stream_frames_sink")]


def is_nontrivial(seq, preset) -> bool:
    """At least one repeated-term elision opportunity or one forced eviction."""
    for a, b in zip(seq, seq[1:]):
        if any(x == y for x, y in zip(a, b)):
            return True
    names: set = set()
    pf: set = set()
    dt: set = set()

    def walk(t):
        if t[0] == "I":
            if preset[1]:
                p, n = AL.split_iri(t[1])
                pf.add(p)
                names.add(n)
            else:
                names.add(t[1])
        elif t[0] == "L" and t[3]:
            dt.add(t[3])
        elif t[0] == "T":
            for x in t[1:]:
                walk(x)

    for st in seq:
        for t in st:
            walk(t)
    return len(names) > preset[0] or (preset[1] and len(pf) > preset[1]) or (
        preset[2] and len(dt) > preset[2])


# ----------------------------------------------------------------- scale family
SCALE_PRESETS = ((4000, 150, 32), (128, 16, 16), (129, 17, 3), (8, 2, 1), (256, 0, 0),
                 (8, 40, 4),  # (a prefix table larger than the name table)
                 (300, 20, 40))  # (sizes that are no multiple of 256, filled beyond 256)
SCALE_KINDS = ("names300", "runs", "longstrings", "bulk1100", "mega")


def scale_seq(kind: str, arity: int) -> list:
    """Deterministic long sequences that cross the 127/128 id and length boundaries."""
    from mc.terms import B, DEFAULT, I, L  # noqa: PLC0415

    out = []
    if kind == "names300":
        for i in range(300):
            s = I(f"http://p{i % 20}.example/ns#n{i}")
            p = I(f"http://p{(i * 7) % 20}.example/ns#p{i % 3}")
            o = L(str(i), None, f"http://dt.example/{i % 40}") if i % 3 else I(
                f"http://p{i % 20}.example/ns#n{(i * 5) % 300}")
            out.append((s, p, o))
    elif kind == "bulk1100":
        for i in range(1100):  # beyond internal batch sizes such as 1000
            out.append((I(f"http://b{i % 7}.example/s{i}"), I(f"http://b{i % 3}.example/p"),
                        L(str(i))))
    elif kind == "mega":
        for i in range(5):  # two megabytes of output, several frames above 256 KiB
            out.append((I(f"http://a/s{i}"), I("http://a/p"), L(chr(97 + i) * 400_000)))
    elif kind == "runs":
        for i in range(260):
            s = I(f"http://a/s{i // 5}") if i % 11 else B(f"b{i // 5}")
            p = I(f"http://a/p{i % 2}")
            o = L("v" * (i % 4), "en" if i % 4 == 0 else None)
            out.append((s, p, o))
    else:
        for n in (1, 126, 127, 128, 129, 255, 256, 16383, 16384, 70000):
            out.append((I("http://a/" + "n" * n), I("http://a/p"), L("é" * n)))
            out.append((B("b" * n), I("http://" + "h" * n + "/x"), L("x", None, "http://d/" + "t" * n)))
        for n in (16384, 16385, 70000):
            # the same long subject and object in consecutive statements
            out.append((I("http://a/" + "s" * n), I("http://a/p"), L("z" * n)))
            out.append((I("http://a/" + "s" * n), I("http://a/q"), L("z" * n)))
    if arity == 4:
        gs = [DEFAULT, I("http://g/1"), I("http://g/1"), B("g"), I("http://p3.example/ns#n3")]
        out = [(*t, gs[(i // 7) % 5]) for i, t in enumerate(out)]
    return out


def scale_jobs() -> list:
    return [("S", kind, cls, pi, 0, 0, 0) for kind in SCALE_KINDS for cls in DR.CLASSES
            for pi in range(len(SCALE_PRESETS))]


def scale_expected(jobs: list) -> int:
    return sum(4 * 2 for j in jobs if j[0] == "S")


def run_scale_job(job, judge) -> dict:
    _, kind, cls, pi, _, _, _ = job
    acc = pool.Acc()
    preset = SCALE_PRESETS[pi]
    seq = scale_seq(kind, 3 if cls == "triple" else 4)
    for fs in (1, 127, 128, 250):
        for dl in (True, False):
            acc.evals += 1
            if not all(AL.fits(st, preset) for st in seq):
                acc.counters["out_of_domain"] += 1
                continue
            acc.nontrivial += 1
            case = {"family": "scale", "kind": kind, "cls": cls, "preset": list(preset),
                    "frame_size": fs, "delimited": dl, "writer": "stream_frames_gen"}
            try:
                data = DR.g_write(seq, cls, DR.make_options(cls, preset, fs, dl))
            except Exception as e:  # noqa: BLE001
                judge(case, seq, None, e, acc)
                continue
            judge(case, seq, data, None, acc)
    acc.sample({"family": "scale", "kind": kind, "cls": cls, "preset": preset,
                "statements": len(seq)}, cap=1)
    return acc.out()


def run_job(job, judge, include_out_of_domain: bool = False) -> dict:
    if job[0] == "S":
        return run_scale_job(job, judge)
    kind, scope, cls, pi, L, lo, hi = job
    acc = pool.Acc()
    arity = 3 if cls == "triple" else 4
    alpha = AL.alphabet(scope, arity)
    presets = AL.SCOPES[scope]["presets"]
    for idx in range(lo, hi):
        sym = AL.seq_at(idx, 6, L)
        seq = [alpha[i] for i in sym]
        if kind == "A":
            configs = [(pi, fs, dl, "stream_frames_gen") for fs in FRAME_SIZES for dl in (True, False)]
            if cls != "graph":
                configs.append((pi, 250, True, "grouped_split"))
        elif kind == "B3":
            configs = [(p, fs, True, w) for p, fs, w in SINK_CONFIGS]
        else:
            configs = [(p, fs, True, w) for p, fs, w in entry_configs(cls)]
        for cpi, fs, dl, writer in configs:
            preset = presets[cpi]
            acc.evals += 1
            ood = not all(AL.fits(st, preset) for st in seq)
            if ood:
                acc.counters["out_of_domain"] += 1
                if not include_out_of_domain:
                    continue
            case = {"scope": scope, "cls": cls, "preset": list(preset), "frame_size": fs,
                    "delimited": dl, "writer": writer, "seq": list(sym)}
            if ood:
                case["out_of_domain"] = True
            if is_nontrivial(seq, preset):
                acc.nontrivial += 1
            try:
                opts = DR.make_options(cls, preset, fs, dl)
                data = DR.g_write(seq, cls, opts, writer)
            except Exception as e:  # noqa: BLE001
                judge(case, seq, None, e, acc)
                continue
            judge(case, seq, data, None, acc)
            if idx % 97 == 0:
                acc.sample({**case, "statements": seq, "bytes": len(data)}, cap=2)
    return acc.out()


def case_inputs(case: dict):
    """Rebuild (seq, opts) from a replay case."""
    arity = 3 if case["cls"] == "triple" else 4
    if case.get("family") == "scale":
        return scale_seq(case["kind"], arity), DR.make_options(
            case["cls"], tuple(case["preset"]), case["frame_size"], case["delimited"])
    alpha = AL.alphabet(case["scope"], arity)
    seq = [alpha[i] for i in case["seq"]]
    opts = DR.make_options(case["cls"], tuple(case["preset"]), case["frame_size"],
                           case["delimited"])
    return seq, opts


def replay_case(case: dict, judge) -> list:
    acc = pool.Acc()
    seq, opts = case_inputs(case)
    try:
        data = DR.g_write(seq, case["cls"], opts, case["writer"])
    except Exception as e:  # noqa: BLE001
        judge(case, seq, None, e, acc)
    else:
        judge(case, seq, data, None, acc)
    return [v["what"] for v in acc.violations]
