#!/bin/sh
# Offline setup: nothing to build (pure Python); run the oracle self-checks.
cd "$(dirname "$0")" || exit 2
mkdir -p evidence replays
PYTHONHASHSEED=0 PYTHONPATH=/repo:/verif exec /venv/bin/python -B -c "
from mc import jwire
jwire.crosscheck_pb2()
try:
    from mc import selfcheck
    selfcheck.main()
except ImportError:
    pass
print('setup ok')
"
